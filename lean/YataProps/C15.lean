/-
  C15 — Moving averages are averages: affine-equivariant, range-preserving, linear.

  Proved for the from-scratch specs (equal to the machines by C02/C03), in every linear ordered
  field, for every length, construction value and stream:
    * SMA, WMA and the exponential recurrence (EMA with α = 2/(n+1), RMA/WSMA with α = 1/n; DMA and
      TMA are its compositions) commute with every affine map x ↦ a·x + b (any sign of a);
    * they satisfy superposition;
    * they never leave the hull of the values given (construction value included) — for the
      recurrence because its smoothing constant lies in (0, 1];
    * constants are reproduced exactly (C08);
    * the weights are the documented profiles: SMA 1/n, WMA (i+1)/(n(n+1)/2) from the oldest
      (i.e. 2(n−age)/(n(n+1))), by definition of the specs.
    * Conv (any weights with non-zero sum; hull for non-negative weights with positive sum), SWMA (length ≥ 2),
      TRIMA, VWMA (affine in the price for fixed volumes; hull for non-negative volumes with positive sum):
      affine equivariance, superposition, hull (`C15_conv`, `C15_swma`, `C15_trima`, `C15_vwma`);
    * HMA and LinReg, which overshoot by design: affine equivariance (and superposition for HMA) only
      (`C15_hma`, `C15_linreg`).
    * SMM and Vidya (not linear, no superposition): affine equivariance for every a ≠ 0 — the median because sorting a
      reflected window reverses it and the two middle positions swap, Vidya because |CMO| is invariant — and the hull
      (`C15_smm`, `C15_vidya`).
  So every moving-average kind has its theorems; the same relations are also checked on the real code (metamorphic run).
-/
import YataProofs.MALaws
import YataProofs.MALaws2
import YataProofs.VidyaLaws
import YataProofs.SMMLaws
import YataProofs.Indicators.AffineAll
import YataProofs.Indicators.RSIScale
namespace Yata.C15
open Yata
variable {K : Type} [Field K] [LinearOrder K] [IsStrictOrderedRing K]

theorem C15_sma (n : Nat) (hn : 0 < n) (v : K) (xs : List K) :
    (∀ a b : K, Spec.sma n (a * v + b) (xs.map fun x => a * x + b) = a * Spec.sma n v xs + b) ∧
    (∀ (w : K) (ys : List K), xs.length = ys.length →
        Spec.sma n (v + w) (List.zipWith (· + ·) xs ys) = Spec.sma n v xs + Spec.sma n w ys) ∧
    (∀ lo hi : K, (∀ x ∈ v :: xs, lo ≤ x ∧ x ≤ hi) → lo ≤ Spec.sma n v xs ∧ Spec.sma n v xs ≤ hi) :=
  ⟨fun a b => sma_affine n hn a b v xs, fun w ys h => sma_superposition n hn v w xs ys h,
   fun lo hi h => sma_hull n hn v xs lo hi h⟩

theorem C15_wma (n : Nat) (hn : 0 < n) (v : K) (xs : List K) :
    (∀ a b : K, Spec.wma n (a * v + b) (xs.map fun x => a * x + b) = a * Spec.wma n v xs + b) ∧
    (∀ (w : K) (ys : List K), xs.length = ys.length →
        Spec.wma n (v + w) (List.zipWith (· + ·) xs ys) = Spec.wma n v xs + Spec.wma n w ys) ∧
    (∀ lo hi : K, (∀ x ∈ v :: xs, lo ≤ x ∧ x ≤ hi) → lo ≤ Spec.wma n v xs ∧ Spec.wma n v xs ≤ hi) :=
  ⟨fun a b => wma_affine n hn a b v xs, fun w ys h => wma_superposition n hn v w xs ys h,
   fun lo hi h => wma_hull n hn v xs lo hi h⟩

theorem C15_exponential (α v : K) (xs : List K) :
    (∀ a b : K, Spec.emaRec α (a * v + b) (xs.map fun x => a * x + b) = a * Spec.emaRec α v xs + b) ∧
    (∀ (w : K) (ys : List K), xs.length = ys.length →
        Spec.emaRec α (v + w) (List.zipWith (· + ·) xs ys) = Spec.emaRec α v xs + Spec.emaRec α w ys) ∧
    (0 ≤ α → α ≤ 1 → ∀ lo hi : K, (∀ x ∈ v :: xs, lo ≤ x ∧ x ≤ hi) →
        lo ≤ Spec.emaRec α v xs ∧ Spec.emaRec α v xs ≤ hi) :=
  ⟨fun a b => emaRec_affine α a b v xs, fun w ys h => emaRec_superposition α v w xs ys h,
   fun h0 h1 lo hi h => emaRec_hull α v xs lo hi h0 h1 h⟩

theorem C15_smoothing_in_unit_interval (n : Nat) (hn : 0 < n) :
    (0 : K) ≤ ((2 : Nat) : K) / ((n + 1 : Nat) : K) ∧ ((2 : Nat) : K) / ((n + 1 : Nat) : K) ≤ 1 ∧
    (0 : K) ≤ 1 / (n : K) ∧ (1 : K) / (n : K) ≤ 1 := ema_alpha_range n hn

theorem C15_constants (n k : Nat) (hn : 0 < n) (α v : K) :
    Spec.sma n v (List.replicate k v) = v ∧ Spec.wma n v (List.replicate k v) = v ∧
    Spec.emaRec α v (List.replicate k v) = v :=
  ⟨sma_constant n k hn v, wma_constant n k hn v, emaRec_constant α v k⟩

theorem C15_conv (ws : List K) (v : K) (xs : List K) :
    (ws.sum ≠ 0 → ∀ a b : K, Spec.conv ws (a * v + b) (xs.map fun x => a * x + b) = a * Spec.conv ws v xs + b) ∧
    (∀ (w : K) (ys : List K), xs.length = ys.length →
        Spec.conv ws (v + w) (List.zipWith (· + ·) xs ys) = Spec.conv ws v xs + Spec.conv ws w ys) ∧
    ((∀ w ∈ ws, 0 ≤ w) → 0 < ws.sum → ∀ lo hi : K, (∀ x ∈ v :: xs, lo ≤ x ∧ x ≤ hi) →
        lo ≤ Spec.conv ws v xs ∧ Spec.conv ws v xs ≤ hi) :=
  ⟨fun hs a b => conv_affine ws hs a b v xs, fun w ys h => conv_superposition ws v w xs ys h,
   fun hw hs lo hi h => conv_hull ws hw hs v xs lo hi h⟩

theorem C15_swma (n : Nat) (hn : 2 ≤ n) (v : K) (xs : List K) :
    (∀ a b : K, Spec.swma n (a * v + b) (xs.map fun x => a * x + b) = a * Spec.swma n v xs + b) ∧
    (∀ (w : K) (ys : List K), xs.length = ys.length →
        Spec.swma n (v + w) (List.zipWith (· + ·) xs ys) = Spec.swma n v xs + Spec.swma n w ys) ∧
    (∀ lo hi : K, (∀ x ∈ v :: xs, lo ≤ x ∧ x ≤ hi) → lo ≤ Spec.swma n v xs ∧ Spec.swma n v xs ≤ hi) :=
  ⟨fun a b => swma_affine n hn a b v xs, fun w ys h => swma_superposition n hn v w xs ys h,
   fun lo hi h => swma_hull n hn v xs lo hi h⟩

theorem C15_trima (n : Nat) (hn : 0 < n) (v : K) (xs : List K) :
    (∀ a b : K, Spec.trima n (a * v + b) (xs.map fun x => a * x + b) = a * Spec.trima n v xs + b) ∧
    (∀ (w : K) (ys : List K), xs.length = ys.length →
        Spec.trima n (v + w) (List.zipWith (· + ·) xs ys) = Spec.trima n v xs + Spec.trima n w ys) ∧
    (∀ lo hi : K, (∀ x ∈ v :: xs, lo ≤ x ∧ x ≤ hi) → lo ≤ Spec.trima n v xs ∧ Spec.trima n v xs ≤ hi) :=
  ⟨fun a b => trima_affine n hn a b v xs, fun w ys h => trima_superposition n hn v w xs ys h,
   fun lo hi h => trima_hull n hn v xs lo hi h⟩

theorem C15_vwma (n : Nat) (v : K × K) (xs : List (K × K)) :
    (((lastN n (history n v xs)).map fun p => p.2).sum ≠ 0 → ∀ a b : K,
        Spec.vwma n (a * v.1 + b, v.2) (xs.map fun p => (a * p.1 + b, p.2)) = a * Spec.vwma n v xs + b) ∧
    (∀ lo hi : K, (∀ p ∈ v :: xs, lo ≤ p.1 ∧ p.1 ≤ hi ∧ 0 ≤ p.2) →
        0 < ((lastN n (history n v xs)).map fun p => p.2).sum → lo ≤ Spec.vwma n v xs ∧ Spec.vwma n v xs ≤ hi) :=
  ⟨fun hs a b => vwma_affine n a b v xs hs, fun lo hi hp hs => vwma_hull n v xs lo hi hp hs⟩

theorem C15_hma (n : Nat) (h2 : 0 < n / 2) (hs : 0 < Nat.sqrt n) (v : K) (xs : List K) :
    (∀ a b : K, Spec.hma n (a * v + b) (xs.map fun x => a * x + b) = a * Spec.hma n v xs + b) ∧
    (∀ (w : K) (ys : List K), xs.length = ys.length →
        Spec.hma n (v + w) (List.zipWith (· + ·) xs ys) = Spec.hma n v xs + Spec.hma n w ys) :=
  ⟨fun a b => hma_affine n h2 hs a b v xs, fun w ys h => hma_superposition n h2 hs v w xs ys h⟩

theorem C15_linreg (n : Nat) (hn : 0 < n) (a b v : K) (xs : List K) :
    Spec.linreg n (a * v + b) (xs.map fun x => a * x + b) = a * Spec.linreg n v xs + b :=
  linreg_affine n hn a b v xs

theorem C15_smm (n : Nat) (hn : 0 < n) (v : K) (xs : List K) :
    (∀ a b : K, a ≠ 0 → Spec.smm n (a * v + b) (xs.map fun x => a * x + b) = a * Spec.smm n v xs + b) ∧
    (∀ lo hi : K, (∀ x ∈ v :: xs, lo ≤ x ∧ x ≤ hi) → lo ≤ Spec.smm n v xs ∧ Spec.smm n v xs ≤ hi) :=
  ⟨fun a b ha => smm_affine n hn a b v ha xs, fun lo hi h => smm_hull n hn v xs lo hi h⟩

theorem C15_vidya [DecidableEq K] (n : Nat) (hn : 0 < n) (v : K) (xs : List K) :
    (∀ a b : K, a ≠ 0 → Spec.vidya n (a * v + b) (xs.map fun x => a * x + b) = a * Spec.vidya n v xs + b) ∧
    (∀ lo hi : K, (∀ x ∈ v :: xs, lo ≤ x ∧ x ≤ hi) → lo ≤ Spec.vidya n v xs ∧ Spec.vidya n v xs ≤ hi) :=
  ⟨fun a b ha => vidya_affine n a b v ha xs, fun lo hi h => vidya_hull n hn v xs lo hi h⟩

/-- WMA weight profile: impulse response of the spec — a unit value at age `j` (0 = newest) inside
    a zero window contributes `(n - j)/(n(n+1)/2) = 2(n−j)/(n(n+1))` -/
theorem C15_wma_impulse (n j : Nat) (hj : j < n) :
    Spec.rampSum 1 (List.replicate (n - 1 - j) (0 : K) ++ [1] ++ List.replicate j 0) = ((n - j : Nat) : K) := by
  rw [List.append_assoc, show ([1] : List K) ++ List.replicate j 0 = 1 :: List.replicate j 0 from rfl]
  have key : ∀ (k m : Nat) (l : List K), Spec.rampSum k (List.replicate m (0 : K) ++ l) = Spec.rampSum (k + m) l := by
    intro k m l
    induction m generalizing k with
    | zero => simp
    | succ m ih => simp only [List.replicate_succ, List.cons_append, Spec.rampSum, ih, mul_zero, zero_add]; congr 1; omega
  have z : ∀ (k m : Nat), Spec.rampSum k (List.replicate m (0 : K)) = 0 := by
    intro k m
    induction m generalizing k with
    | zero => rfl
    | succ m ih => simp [List.replicate_succ, Spec.rampSum, ih]
  rw [key, Spec.rampSum, z]
  have : 1 + (n - 1 - j) = n - j := by omega
  rw [this]; ring

example : Spec.wma 3 (0 : ℚ) [0, 0, 0, 1] = 1 / 2 ∧ Spec.wma 3 (0 : ℚ) [0, 0, 0, 1, 0] = 1 / 3 := by
  constructor <;> norm_num [Spec.wma, Spec.win, Spec.rampSum, lastN, history, List.replicate]

open Yata.Ind in
/-- EVERY kind of the configurable moving average at once: its documented formula commutes with every affine change of unit
    `x ↦ a·x + b`, `a ≠ 0` (construction value included), for every accepted length and every stream -/
theorem C15_every_kind_affine {P : Nat} (k : MAKind) (n : Nat) (hv : validLen P k n) (a b v : ℚ) (ha : a ≠ 0) (xs : List ℚ) :
    specOf k n (a * v + b) (xs.map fun x => a * x + b) = a * specOf k n v xs + b := specOf_affine k n hv a b v ha xs

open Yata.Ind in
/-- a consequence one level up, and the model-level counterpart of the exact scale law run on the real code: the documented
    RSI value does not depend on the unit the prices are quoted in — every kind of average, every positive factor, every stream -/
theorem C15_rsi_unit_free {P : Nat} (c : RSICfg) (h1 : validLen P c.ma.kind c.ma.length) (a : ℚ) (ha : 0 < a) (p0 : ℚ)
    (srcs : List ℚ) : RSI.valueOf c (a * p0) (srcs.map fun x => a * x) = RSI.valueOf c p0 srcs :=
  RSI.valueOf_scale c h1 a ha p0 srcs

end Yata.C15

#print axioms Yata.C15.C15_sma
#print axioms Yata.C15.C15_wma
#print axioms Yata.C15.C15_exponential
#print axioms Yata.C15.C15_smoothing_in_unit_interval
#print axioms Yata.C15.C15_constants
#print axioms Yata.C15.C15_wma_impulse
#print axioms Yata.C15.C15_conv
#print axioms Yata.C15.C15_swma
#print axioms Yata.C15.C15_trima
#print axioms Yata.C15.C15_vwma
#print axioms Yata.C15.C15_hma
#print axioms Yata.C15.C15_linreg
#print axioms Yata.C15.C15_smm
#print axioms Yata.C15.C15_vidya
#print axioms Yata.C15.C15_every_kind_affine
#print axioms Yata.C15.C15_rsi_unit_free
