/-
  C04 — Extremum, arg-extremum and median methods are exact selections.

  Proved here (every element type `β` of bit patterns with a numeric value in a linear order,
  bit-equality finer than numeric equality — i.e. with ties, repeated values and signed zeros —
  every length, every construction value, every stream, every position incl. warm-up):
    * Highest returns (the bit pattern of) an element of the last `n` values that is numerically
      ≥ all of them; Lowest mirrored.  In particular the bit-equality rescan trigger is sound.
    * HighestIndex returns the age `i` of the NEWEST maximal element of the last `n` values: the element at
      age `i` is numerically ≥ all of them and everything newer is strictly smaller (`NewestMaxAt`, which
      determines `i` uniquely — `C04_newest_max_unique`); LowestIndex mirrored. Ties: the newest wins, both on
      the fast path (`>=`) and in the full rescan (strict `>` over the window newest-first).
    * SMM (for the total order of the bit patterns, `tcmp = compare`, i.e. `total_cmp` with −0 < +0): the binary
      searches find the evicted element and a valid insertion point, the in-place shift (`copy_within` + store) is
      "erase there, insert here", so after every stream the slice is THE ascending sort of the last `n` values and
      `mid` returns its middle element(s) (`C04_smm`); no step can panic (`C04_smm_step`).
    * HighestLowestDelta keeps a maximal and a minimal element of the window on every stream (`C04_hldelta`).
  Every C04 method has its theorem (MedianAbsDev's median: C02); independently the run compares all of them exactly with the
  model and with the from-scratch selections of `YataModel/Spec.lean` (small alphabets with ±0).
-/
import YataProofs.Selection
import YataProofs.SelectionIndex
import YataProofs.SMM
import YataProofs.HLDelta
import YataProofs.Numeric.Common
import Mathlib.Algebra.Order.Ring.Rat
namespace Yata.C04
open Yata FloatLike
variable {β K : Type} [LinearOrder K] [FloatLike β K] [DecidableLT β] [DecidableLE β] {P : Nat}

theorem C04_highest {n : Nat} (v : β) (hn0 : 0 < n) (hn : n ≤ P - 1) (xs : List β) :
    ∃ s0 outs s', Highest.new P n v = .ok s0 ∧ runM Highest.next s0 xs = .ok (outs, s') ∧
      outs.length = xs.length ∧
      ∀ i (hi : i < outs.length), IsMaxOf outs[i] (lastN n (history n v (xs.take (i + 1)))) := by
  obtain ⟨s0, hnew, hinv0, htl0⟩ := Highest.new_spec (P := P) v hn0 hn
  obtain ⟨os, s', hr, _, hlen, houts⟩ :=
    runM_invariant Highest.next
      (fun h s => Highest.Inv P s ∧ Window.toList s.window = lastN n (history n v h) ∧ n ≤ (history n v h).length)
      (fun h o => IsMaxOf o (lastN n (history n v h)))
      (by
        intro h s x ⟨hinv, htl, hl⟩
        obtain ⟨o, s1, hnx, hinv1, ho, htl1⟩ := Highest.next_spec x hinv
        have e : Window.toList s1.window = lastN n (history n v (h ++ [x])) := by
          rw [htl1, htl, history_snoc, lastN_snoc x hn0 hl]
        refine ⟨o, s1, hnx, ⟨hinv1, e, by rw [history_snoc]; simp; omega⟩, ?_⟩
        rw [ho, ← e]; exact hinv1.isMax)
      xs [] s0 ⟨hinv0, by rw [htl0, lastN_history_nil], by simp [history]⟩
  exact ⟨s0, os, s', hnew, hr, hlen, fun i hi => by simpa using houts i hi⟩

theorem C04_lowest {n : Nat} (v : β) (hn0 : 0 < n) (hn : n ≤ P - 1) (xs : List β) :
    ∃ s0 outs s', Lowest.new P n v = .ok s0 ∧ runM Lowest.next s0 xs = .ok (outs, s') ∧
      outs.length = xs.length ∧
      ∀ i (hi : i < outs.length), IsMinOf outs[i] (lastN n (history n v (xs.take (i + 1)))) := by
  obtain ⟨s0, hnew, hinv0, htl0⟩ := Lowest.new_spec (P := P) v hn0 hn
  obtain ⟨os, s', hr, _, hlen, houts⟩ :=
    runM_invariant Lowest.next
      (fun h s => Lowest.Inv P s ∧ Window.toList s.window = lastN n (history n v h) ∧ n ≤ (history n v h).length)
      (fun h o => IsMinOf o (lastN n (history n v h)))
      (by
        intro h s x ⟨hinv, htl, hl⟩
        obtain ⟨o, s1, hnx, hinv1, ho, htl1⟩ := Lowest.next_spec x hinv
        have e : Window.toList s1.window = lastN n (history n v (h ++ [x])) := by
          rw [htl1, htl, history_snoc, lastN_snoc x hn0 hl]
        refine ⟨o, s1, hnx, ⟨hinv1, e, by rw [history_snoc]; simp; omega⟩, ?_⟩
        rw [ho, ← e]; exact hinv1.isMin)
      xs [] s0 ⟨hinv0, by rw [htl0, lastN_history_nil], by simp [history]⟩
  exact ⟨s0, os, s', hnew, hr, hlen, fun i hi => by simpa using houts i hi⟩

theorem C04_highest_index {n : Nat} (v : β) (hn0 : 0 < n) (hn : n ≤ P - 1) (xs : List β) :
    ∃ s0 outs s', HighestIndex.new P n v = .ok s0 ∧ runM (HighestIndex.next P) s0 xs = .ok (outs, s') ∧
      outs.length = xs.length ∧
      ∀ i (hi : i < outs.length), ∃ m, NewestMaxAt outs[i] m (lastN n (history n v (xs.take (i + 1)))).reverse := by
  obtain ⟨s0, hnew, hinv0, htl0⟩ := HighestIndex.new_spec (P := P) v hn0 hn
  obtain ⟨os, s', hr, _, hlen, houts⟩ :=
    runM_invariant (HighestIndex.next P)
      (fun h s => HighestIndex.Inv P s ∧ Window.toList s.window = lastN n (history n v h) ∧ n ≤ (history n v h).length)
      (fun h o => ∃ m, NewestMaxAt o m (lastN n (history n v h)).reverse)
      (by
        intro h s x ⟨hinv, htl, hl⟩
        obtain ⟨o, s1, hnx, hinv1, ho, htl1⟩ := HighestIndex.next_spec x hinv
        have e : Window.toList s1.window = lastN n (history n v (h ++ [x])) := by
          rw [htl1, htl, history_snoc, lastN_snoc x hn0 hl]
        refine ⟨o, s1, hnx, ⟨hinv1, e, by rw [history_snoc]; simp; omega⟩, s1.value, ?_⟩
        rw [ho, ← e]; exact hinv1.at_)
      xs [] s0 ⟨hinv0, by rw [htl0, lastN_history_nil], by simp [history]⟩
  exact ⟨s0, os, s', hnew, hr, hlen, fun i hi => by simpa using houts i hi⟩

theorem C04_lowest_index {n : Nat} (v : β) (hn0 : 0 < n) (hn : n ≤ P - 1) (xs : List β) :
    ∃ s0 outs s', LowestIndex.new P n v = .ok s0 ∧ runM (LowestIndex.next P) s0 xs = .ok (outs, s') ∧
      outs.length = xs.length ∧
      ∀ i (hi : i < outs.length), ∃ m, NewestMinAt outs[i] m (lastN n (history n v (xs.take (i + 1)))).reverse := by
  obtain ⟨s0, hnew, hinv0, htl0⟩ := LowestIndex.new_spec (P := P) v hn0 hn
  obtain ⟨os, s', hr, _, hlen, houts⟩ :=
    runM_invariant (LowestIndex.next P)
      (fun h s => LowestIndex.Inv P s ∧ Window.toList s.window = lastN n (history n v h) ∧ n ≤ (history n v h).length)
      (fun h o => ∃ m, NewestMinAt o m (lastN n (history n v h)).reverse)
      (by
        intro h s x ⟨hinv, htl, hl⟩
        obtain ⟨o, s1, hnx, hinv1, ho, htl1⟩ := LowestIndex.next_spec x hinv
        have e : Window.toList s1.window = lastN n (history n v (h ++ [x])) := by
          rw [htl1, htl, history_snoc, lastN_snoc x hn0 hl]
        refine ⟨o, s1, hnx, ⟨hinv1, e, by rw [history_snoc]; simp; omega⟩, s1.value, ?_⟩
        rw [ho, ← e]; exact hinv1.at_)
      xs [] s0 ⟨hinv0, by rw [htl0, lastN_history_nil], by simp [history]⟩
  exact ⟨s0, os, s', hnew, hr, hlen, fun i hi => by simpa using houts i hi⟩

/-- "the newest maximal element" is a function of the window: two witnesses have the same age -/
theorem C04_newest_max_unique {i i' : Nat} {m m' : β} {r : List β} (h : NewestMaxAt i m r) (h' : NewestMaxAt i' m' r) :
    i = i' := h.unique h'

theorem C04_newest_min_unique {i i' : Nat} {m m' : β} {r : List β} (h : NewestMinAt i m r) (h' : NewestMinAt i' m' r) :
    i = i' := h.unique h'

/-- HighestLowestDelta keeps a maximal and a minimal element of the last `n` values, on every stream (the output is
    their difference, formed by the caller) -/
theorem C04_hldelta {n : Nat} (v : β) (hn0 : 0 < n) (hn : n ≤ P - 1) (xs : List β) :
    ∃ s0 s', HighestLowestDelta.new P n v = .ok s0 ∧ xs.foldlM (fun s x => HighestLowestDelta.step s x) s0 = .ok s' ∧
      IsMaxOf s'.highest (lastN n (history n v xs)) ∧ IsMinOf s'.lowest (lastN n (history n v xs)) := by
  obtain ⟨s0, hnew, hinv0, htl0⟩ := HighestLowestDelta.new_spec (P := P) v hn0 hn
  have key : ∀ (xs : List β) (h : List β) (s : HighestLowestDelta β), HighestLowestDelta.Inv P s →
      Window.toList s.window = lastN n (history n v h) → n ≤ (history n v h).length →
      ∃ s', xs.foldlM (fun s x => HighestLowestDelta.step s x) s = .ok s' ∧ HighestLowestDelta.Inv P s' ∧
        Window.toList s'.window = lastN n (history n v (h ++ xs)) := by
    intro xs
    induction xs with
    | nil => intro h s hi ht _; exact ⟨s, rfl, hi, by simpa using ht⟩
    | cons x t ih =>
      intro h s hi ht hl
      obtain ⟨s1, hst, hi1, ht1⟩ := HighestLowestDelta.step_spec x hi
      have e : Window.toList s1.window = lastN n (history n v (h ++ [x])) := by
        rw [ht1, ht, history_snoc, lastN_snoc x hn0 hl]
      obtain ⟨s', hf, hi', ht'⟩ := ih (h ++ [x]) s1 hi1 e (by rw [history_snoc]; simp; omega)
      refine ⟨s', ?_, hi', by simpa [List.append_assoc] using ht'⟩
      simp only [List.foldlM_cons, hst, bind, Except.bind]
      exact hf
  obtain ⟨s', hf, hi', ht'⟩ := key xs [] s0 hinv0 (by rw [htl0, lastN_history_nil]) (by simp [history])
  simp only [List.nil_append] at ht'
  exact ⟨s0, s', hnew, hf, by rw [← ht']; exact hi'.isMax, by rw [← ht']; exact hi'.isMin⟩

section SMMSection
variable {γ : Type} [LinearOrder γ] [TotalCmp γ] [TotalLike γ]

theorem C04_smm_step {s : SMM γ} (value : γ) (h : SMM.Inv P s) :
    ∃ s', s.step value = .ok s' ∧ SMM.Inv P s' ∧
      Window.toList s'.window = (Window.toList s.window).tail ++ [value] ∧ s'.half = s.half ∧ s'.half_m1 = s.half_m1 :=
  SMM.step_spec value h

theorem C04_smm {n : Nat} (v : γ) (hn0 : 0 < n) (hn : n ≤ P - 1) (xs : List γ) :
    ∃ s0 s', SMM.new P n v = .ok s0 ∧ (xs.foldlM (fun s x => SMM.step s x) s0 = .ok s') ∧
      s'.slice = (lastN n (history n v xs)).mergeSort (fun a b => decide (a ≤ b)) ∧
      s'.half = n / 2 ∧ s'.half_m1 = n / 2 - (if n % 2 = 0 then 1 else 0) ∧
      ∃ a b, s'.mid = .ok (a, b) ∧ s'.slice[n / 2]? = some a ∧ s'.slice[n / 2 - (if n % 2 = 0 then 1 else 0)]? = some b :=
  SMM.run_spec v hn0 hn xs
/-! non-vacuity: the rationals with their numeric comparison are a `TotalLike` order (the driver's scalar) -/
instance : TotalLike ℚ where
  tcmp_eq a b := by
    show (if a < b then Ordering.lt else if b < a then Ordering.gt else Ordering.eq) = compare a b
    rcases lt_trichotomy a b with h | h | h
    · rw [if_pos h, compare_lt_iff_lt.mpr h]
    · subst h; simp
    · rw [if_neg (not_lt.mpr (le_of_lt h)), if_pos h, compare_gt_iff_gt.mpr h]
end SMMSection

/-- zero length is rejected -/
theorem C04_zero_length (v : β) :
    (∃ e, Highest.new P 0 v = .err e) ∧ (∃ e, Lowest.new P 0 v = .err e) :=
  ⟨⟨_, rfl⟩, ⟨_, rfl⟩⟩

/-! Non-vacuity: the driver's scalar `FZ` (rationals with a signed zero) satisfies `FloatLike`;
    -0.0 and +0.0 are numerically equal and not bit-equal. -/
instance : FloatLike FZ ℚ where
  num := FZ.q
  lt_iff _ _ := Iff.rfl
  le_iff _ _ := Iff.rfl
  bitEq_refl a := by simp [BitEq.bitEq]
  bitEq_num a b h := by
    simp only [BitEq.bitEq, Bool.and_eq_true, beq_iff_eq] at h
    exact h.1

example : FloatLike.num (⟨0, true⟩ : FZ) = FloatLike.num (⟨0, false⟩ : FZ) ∧
    bitEq (⟨0, true⟩ : FZ) (⟨0, false⟩ : FZ) = false := by
  constructor
  · rfl
  · simp [BitEq.bitEq]

end Yata.C04

#print axioms Yata.C04.C04_highest
#print axioms Yata.C04.C04_lowest
#print axioms Yata.C04.C04_zero_length
#print axioms Yata.C04.C04_highest_index
#print axioms Yata.C04.C04_lowest_index
#print axioms Yata.C04.C04_newest_max_unique
#print axioms Yata.C04.C04_newest_min_unique
#print axioms Yata.C04.C04_smm_step
#print axioms Yata.C04.C04_smm
#print axioms Yata.C04.C04_hldelta
