/-
  C13 — Serialized snapshots restore behaviourally identical instances.

  Only `Window` and `SMM` have hand-written (de)serialization (`Generated/Surface.lean`, regenerated
  from /repo/src on every run; `C13_serde_surface` fails if another impl or a `serde(skip…)` appears).
    * Window (model of C01): `deserialize (serialize w) = w` for every reachable window of every
      capacity (incl. the empty one), so all future outputs are identical; malformed data — oversized
      buffer, oldest-index outside the buffer — is rejected, and whatever is accepted is a consistent
      window (never an inconsistent instance).
    * SMM serializes its window only and rebuilds the sorted slice on the way back: the rebuilt slice
      is a sorted permutation of the window contents (`C13_smm_rebuild`), and for every invariant state it is the very
      slice the instance held, so the restored instance is the original one (`C13_smm_roundtrip`).
  Every other type derives Serialize/Deserialize: the property then reduces to `serde_derive` being a
  bijection on field lists and to float text round-trip in serde_json (both trusted); it is exercised
  by the correspondence run: every method and indicator, snapshot after 0…k steps at every ring phase,
  JSON round trip, original vs restored on a continuation, bit-identical.
-/
import YataProofs.Window
import YataProofs.SMMSerde
import YataModel.Spec
import Generated.Surface
namespace Yata.C13
open Yata Yata.Window Yata.Generated
variable {α : Type} {P : Nat}

theorem C13_serde_surface :
    (serdeManual.map (fun t => t.2.1)).eraseDups = ["SMM", "Window"] ∧ serdeSkipped = [] := by decide

theorem C13_window_roundtrip {w : Window α} (h : Inv P w) (hP : 1 ≤ P) :
    deserialize P (serialize w) = .ok (.ok w) := deserialize_serialize h hP

theorem C13_window_rejects_malformed (buf : List α) (index : Nat) (hP : 1 ≤ P) :
    (∃ w, deserialize P (buf, index) = .ok (.ok w) ∧ Inv P w ∧
        toList w = buf.drop index ++ buf.take index) ∨
    ((∃ e, deserialize P (buf, index) = .error e) ∧
        (buf.length > P - 1 ∨ (buf.length ≤ index ∧ ¬ (buf = [] ∧ index = 0)))) :=
  deserialize_accepts buf index hP

/-- the slice rebuilt by `Deserialize for SMM` (`sort` of the window buffer) is sorted and holds
    exactly the window's values -/
theorem C13_smm_rebuild (l : List Nat) :
    (Spec.sort l).Pairwise (· ≤ ·) ∧ (Spec.sort l).Perm l := by
  unfold Spec.sort
  refine ⟨?_, List.mergeSort_perm l _⟩
  have := List.pairwise_mergeSort (le := fun a b : Nat => decide (a ≤ b))
    (fun a b c h1 h2 => by simp at *; omega) (fun a b => by simp; omega) l
  simpa using this

/-- SMM: the instance rebuilt from the serialized window equals the original instance (every invariant state; the cached
    middle indices are functions of the window length, established by the constructor: `SMM.new_indices`) -/
theorem C13_smm_roundtrip {β : Type} [LinearOrder β] [TotalCmp β] [TotalLike β] {s : SMM β} (h : SMM.Inv P s)
    (hh : s.half = s.window.len / 2)
    (hm : s.half_m1 = satSub (s.window.len / 2) (if s.window.len % 2 = 0 then 1 else 0)) :
    SMM.ofWindow s.window (s.window.buf.mergeSort (fun a b => decide (a ≤ b))) = s := SMM.roundtrip h hh hm

example : (⟨[4, 5, 3], 2, 3, 2⟩ : Window Nat).serialize = ([4, 5, 3], 2) := rfl

end Yata.C13

#print axioms Yata.C13.C13_serde_surface
#print axioms Yata.C13.C13_window_roundtrip
#print axioms Yata.C13.C13_window_rejects_malformed
#print axioms Yata.C13.C13_smm_rebuild
#print axioms Yata.C13.C13_smm_roundtrip
