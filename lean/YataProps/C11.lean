/-
  C11 — Indicator interface contract: result shape, dynamic dispatch and string setters.

  `Generated/IndicatorTable.lean` is regenerated from /repo/src/indicators/*.rs by
  tools/extract.py on every run (public fields and their types, the arms of `set()` with the field
  each one assigns, the tuple returned by `size()`, the arities of the two slices given to
  `IndicatorResult::new`, presence of `Default`).  The theorems below quantify over that table, so
  they are re-checked against what the code says now; a row the translator cannot read carries an
  `untranslated` entry and falsifies `C11_table_translated`.

  `name() = NAME`, the `Dyn` blanket impls, `validate(default)` and `init(default)` are forwarding
  glue / runtime facts: they are compared Rust-vs-Rust by the correspondence run (`indapi` suite).
-/
import Generated.IndicatorTable
import YataModel.Basic
namespace Yata.C11
open Yata.Generated

/-- model of `IndicatorResult::new(values_slice, signals_slice)`: both are truncated to `SIZE = 4` -/
def resultLength (nValues nSignals : Nat) : Nat × Nat := (min 4 nValues, min 4 nSignals)

def rowOk (r : IndicatorRow) : Bool :=
  r.untranslated.isEmpty && r.name.isSome && r.hasDefault

/-- every arm assigns the field named by its key, and the keys are exactly the public fields -/
def settersOk (r : IndicatorRow) : Bool :=
  r.setArms.all (fun a => a.field == some a.key) &&
  r.pubFields.all (fun f => r.setArms.any (fun a => a.key == f.1)) &&
  r.setArms.all (fun a => r.pubFields.any (fun f => f.1 == a.key)) &&
  (r.setArms.map (·.key)).Nodup

/-- `size()` equals the arities handed to `IndicatorResult::new` at every construction site, and
    both fit the fixed-size result (so the truncation never fires) -/
def shapeOk (r : IndicatorRow) : Bool :=
  match r.size with
  | none => false
  | some (v, s) =>
    v ≤ 4 && s ≤ 4 && !r.resultArities.isEmpty &&
    r.resultArities.all (fun a => a.1 == some v && a.2 == some s)

theorem C11_table_translated : indicatorTable.all rowOk = true := by decide

theorem C11_setters : indicatorTable.all settersOk = true := by decide

theorem C11_shape : indicatorTable.all shapeOk = true := by decide

/-- with arities ≤ 4 the result carries exactly the announced number of values and signals -/
theorem C11_result_length (v s : Nat) (hv : v ≤ 4) (hs : s ≤ 4) : resultLength v s = (v, s) := by
  simp [resultLength, Nat.min_eq_right hv, Nat.min_eq_right hs]

/-- `NAME`s are pairwise distinct -/
theorem C11_names_distinct : (indicatorTable.map (·.name)).Nodup := by decide

/-! non-vacuity: the table is not empty and contains the flagship indicators -/
example : indicatorTable.length ≥ 34 ∧ indicatorTable.any (fun r => r.config == "MACD") = true := by decide

end Yata.C11

#print axioms Yata.C11.C11_table_translated
#print axioms Yata.C11.C11_setters
#print axioms Yata.C11.C11_shape
#print axioms Yata.C11.C11_result_length
#print axioms Yata.C11.C11_names_distinct
