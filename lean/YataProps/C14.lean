/-
  C14 — Crossing and reversal detectors are definitional for any stream length.

  Proved (every ordered field, every pair of streams, every length):
    * CrossAbove fires at a step exactly when the previous difference value−base (the
      construction difference before the first step) was negative and the current one is
      non-negative; CrossUnder exactly in the mirrored case;
    * Cross is their signed combination (the two never fire together) and swapping the two
      series negates its output at every step.
    * UpperReversalSignal (positions in unbounded `Nat` as in the repaired code), every `left, right ≥ 1`, every stream:
      after step `t` the remembered pair is THE newest maximum of the positions `max(0, t+1−(left+right+1)) … t`
      (`LastMaxAt`: maximal, everything newer strictly smaller — unique, `C14_newest_max_unique`), both on the fast
      path and after the rescan that runs when the old maximum has left the window; the signal fires iff `t ≥ right`
      and that position is `t − right` (`C14_upper_reversal`). The first input competes with the construction value
      (the constant prehistory occupies position 0). LowerReversalSignal is the mirror image (`C14_lower_reversal`);
      `ReversalSignal = lower − upper` (`C14_reversal_is_lower_minus_upper`).
-/
import YataProofs.Cross
import YataProofs.Reversal
import YataProofs.ReversalLow
namespace Yata.C14
open Yata
variable {K : Type} [Field K] [LinearOrder K] [IsStrictOrderedRing K]

theorem C14_cross_above (init : K × K) (xs : List (K × K)) :
    ∃ outs s', runM (liftNext CrossAbove.next) (CrossAbove.new init) xs = .ok (outs, s') ∧
      outs.length = xs.length ∧
      ∀ i (hi : i < outs.length) (hx : i < xs.length),
        outs[i] = if crossAboveRule (lastDelta init (xs.take i)) (xs[i].1 - xs[i].2)
                  then Action.buyAll else Action.none :=
  CrossAbove.run_spec init xs

theorem C14_cross_under (init : K × K) (xs : List (K × K)) :
    ∃ outs s', runM (liftNext CrossUnder.next) (CrossUnder.new init) xs = .ok (outs, s') ∧
      outs.length = xs.length ∧
      ∀ i (hi : i < outs.length) (hx : i < xs.length),
        outs[i] = if crossUnderRule (lastDelta init (xs.take i)) (xs[i].1 - xs[i].2)
                  then Action.buyAll else Action.none :=
  CrossUnder.run_spec init xs

/-- Cross = (up as i8) − (down as i8); the two rules are mutually exclusive -/
theorem C14_cross_step (s : Cross K) (v : K × K) :
    (s.next v).1 = Action.ofI8 ((if crossAboveRule s.up.last_delta (v.1 - v.2) then 1 else 0) -
                                (if crossUnderRule s.down.last_delta (v.1 - v.2) then 1 else 0)) ∧
    ¬ (crossAboveRule s.up.last_delta (v.1 - v.2) = true ∧ crossUnderRule s.up.last_delta (v.1 - v.2) = true) :=
  ⟨(Cross.next_def s v).1, cross_rules_exclusive _ _⟩

/-- swapping the two series negates the output of every step (mirror states stay mirror states);
    the hypotheses hold for `Cross.new (a₀,b₀)` vs `Cross.new (b₀,a₀)` and are preserved -/
theorem C14_cross_antisymmetric (s t : Cross K) (a b : K) (hs : s.up.last_delta = s.down.last_delta)
    (hu : t.up.last_delta = -s.up.last_delta) (hd : t.down.last_delta = -s.down.last_delta) :
    (t.next (b, a)).1 = ((s.next (a, b)).1).neg ∧
    (t.next (b, a)).2.up.last_delta = -(s.next (a, b)).2.up.last_delta ∧
    (t.next (b, a)).2.down.last_delta = -(s.next (a, b)).2.down.last_delta ∧
    (s.next (a, b)).2.up.last_delta = (s.next (a, b)).2.down.last_delta :=
  let ⟨h1, h2, h3⟩ := Cross.swap_step s t a b hs hu hd
  ⟨h1, h2, h3, rfl⟩

theorem C14_cross_antisymmetric_init (a b : K) :
    (Cross.new (b, a)).up.last_delta = -(Cross.new (a, b)).up.last_delta ∧
    (Cross.new (b, a)).down.last_delta = -(Cross.new (a, b)).down.last_delta ∧
    (Cross.new (a, b)).up.last_delta = (Cross.new (a, b)).down.last_delta := by
  simp [Cross.new, CrossAbove.new, CrossUnder.new]

/-- ReversalSignal is lower minus upper -/
theorem C14_reversal_is_lower_minus_upper (s : ReversalSignal K) (x : K) {a b : Action}
    {lo : LowerReversalSignal K} {hi : UpperReversalSignal K}
    (hl : s.low.next x = .ok (a, lo)) (hh : s.high.next x = .ok (b, hi)) :
    s.next x = .ok (Action.sub a b, { high := hi, low := lo }) := by
  simp [ReversalSignal.next, hl, hh]

theorem C14_upper_reversal {P left right : Nat} (v : K) (hl : 0 < left) (hr : 0 < right) (hsum : left + right + 1 ≤ P - 1)
    (xs : List K) :
    ∃ s0 outs s', UpperReversalSignal.new P left right v = .ok s0 ∧ runM UpperReversalSignal.next s0 xs = .ok (outs, s') ∧
      outs.length = xs.length ∧
      ∀ t (ht : t < outs.length), ∃ mi mv,
        LastMaxAt mi mv (UpperReversalSignal.firstPos (left + right + 1) (t + 1))
          ((virt v (xs.take (t + 1))).drop (UpperReversalSignal.firstPos (left + right + 1) (t + 1))) ∧
        outs[t] = (if t ≥ right ∧ mi = t - right then Action.buyAll else Action.none) :=
  UpperReversalSignal.run_spec v hl hr hsum xs

theorem C14_lower_reversal {P left right : Nat} (v : K) (hl : 0 < left) (hr : 0 < right) (hsum : left + right + 1 ≤ P - 1)
    (xs : List K) :
    ∃ s0 outs s', LowerReversalSignal.new P left right v = .ok s0 ∧ runM LowerReversalSignal.next s0 xs = .ok (outs, s') ∧
      outs.length = xs.length ∧
      ∀ t (ht : t < outs.length), ∃ mi mv,
        LastMinAt mi mv (LowerReversalSignal.firstPos (left + right + 1) (t + 1))
          ((virtMin v (xs.take (t + 1))).drop (LowerReversalSignal.firstPos (left + right + 1) (t + 1))) ∧
        outs[t] = (if t ≥ right ∧ mi = t - right then Action.buyAll else Action.none) :=
  LowerReversalSignal.run_spec v hl hr hsum xs

/-- the newest maximum / minimum of a list of positions is unique: the rule determines the pivot position -/
theorem C14_newest_max_unique {i i' : Nat} {v v' : K} {off : Nat} {l : List K}
    (h : LastMaxAt i v off l) (h' : LastMaxAt i' v' off l) : i = i' ∧ v = v' := h.unique h'

theorem C14_newest_min_unique {i i' : Nat} {v v' : K} {off : Nat} {l : List K}
    (h : LastMinAt i v off l) (h' : LastMinAt i' v' off l) : i = i' ∧ v = v' := h.unique h'

/-! non-vacuity: a touch (difference exactly zero) after a negative difference fires CrossAbove -/
example : ((CrossAbove.new ((1 : ℚ), 2)).next (3, 3)).1 = Action.buyAll := by
  simp [CrossAbove.new, CrossAbove.next, CrossAbove.binary, Action.ofI8]

end Yata.C14

#print axioms Yata.C14.C14_cross_above
#print axioms Yata.C14.C14_cross_under
#print axioms Yata.C14.C14_cross_step
#print axioms Yata.C14.C14_cross_antisymmetric
#print axioms Yata.C14.C14_cross_antisymmetric_init
#print axioms Yata.C14.C14_reversal_is_lower_minus_upper
#print axioms Yata.C14.C14_upper_reversal
#print axioms Yata.C14.C14_lower_reversal
#print axioms Yata.C14.C14_newest_max_unique
#print axioms Yata.C14.C14_newest_min_unique
