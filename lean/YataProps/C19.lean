/-
  C19 — The unsafe_performance feature changes nothing observable and stays in bounds.

  `Generated/Surface.lean` (regenerated from /repo/src on every run) lists every `get_unchecked*` and
  `ptr::copy` outside tests with its index expression.  `C19_sites_known` proves that list contains
  only the sites analysed below (a new or changed unchecked access falsifies it).  For each known
  site the model's index expression is proved to be inside the buffer under the representation
  invariant of C01 (which every reachable window satisfies), and the branch-free `ptr::copy` arm of
  SMM is proved equal to the safe `copy_within` arm with both ranges inside the slice.
  Hence — under the trusted Rust semantics "`get_unchecked(i)` is `[i]` when `i` is in bounds" — both
  builds compute the same function wherever the default build does not panic.  The compiled artefact
  itself is compared bit-for-bit with the default build by the correspondence run.
-/
import YataProofs.Unsafe
import Generated.Surface
namespace Yata.C19
open Yata Yata.Window Yata.Generated
variable {α : Type} {P : Nat}

/-- (file, construct, index expression) of the unchecked accesses the theorems below cover -/
def knownSites : List (String × String × String) := [
  ("src/methods/smm.rs", "get_unchecked", "index"),                 -- `get(slice, i)`: median indices, binary-search halves
  ("src/methods/smm.rs", "get_unchecked_mut", "index"),             -- insertion position
  ("src/methods/smm.rs", "ptr::copy", ""),                          -- the shift
  ("src/core/window.rs", "get_unchecked_mut", "self.index as usize"),  -- push
  ("src/core/window.rs", "get_unchecked", "index as usize"),        -- newest
  ("src/core/window.rs", "get_unchecked", "self.index as usize"),   -- oldest, both iterators
  ("src/core/window.rs", "get_unchecked", "buf_index")]             -- Index

theorem C19_sites_known :
    unsafeSites.all (fun s => knownSites.contains (s.1, s.2.2.1, s.2.2.2)) = true ∧ unsafeSites.length = 9 := by decide

theorem C19_window_push_oldest {w : Window α} (h : Inv P w) (hpos : 0 < w.size) : w.index < w.buf.length :=
  inb_index h hpos

theorem C19_window_newest {w : Window α} (h : Inv P w) (hpos : 0 < w.size) :
    (checkedSub w.index 1).getD w.s_1 < w.buf.length := inb_newest h hpos

theorem C19_window_index {w : Window α} (h : Inv P w) (k : Nat) (hk : k < w.size) :
    ∃ bi, sliceIndex P w k = .ok (some bi) ∧ bi < w.buf.length := inb_slice_index h k hk

theorem C19_window_iterators {w : Window α} {it : Iter} {j : Nat} (h : Inv P w) (hj : j < w.size) :
    (IterInv w it j → satSub it.index 1 + (if it.index = 0 then 1 else 0) * w.s_1 < w.buf.length) ∧
    (IterRevInv w it j → it.index < w.buf.length) :=
  ⟨fun hit => inb_iter h hit hj, fun hit => inb_iter_rev h hit hj⟩

theorem C19_smm_shift {β : Type} (l : List β) (o i : Nat) :
    smmUnsafeShift l o i = smmSafeShift l o i := smmUnsafeShift_eq_safe l o i

theorem C19_smm_shift_in_bounds (n o i : Nat) (ho : o < n) (hi : i < n) :
    let (start, dest, count) := smmUnsafeArgs o i
    start + count ≤ n ∧ dest + count ≤ n := smmUnsafe_in_bounds n o i ho hi

example : smmUnsafeShift [1, 2, 3, 4, 5] 1 3 = [1, 3, 4, 4, 5] := by decide

end Yata.C19

#print axioms Yata.C19.C19_sites_known
#print axioms Yata.C19.C19_window_push_oldest
#print axioms Yata.C19.C19_window_newest
#print axioms Yata.C19.C19_window_index
#print axioms Yata.C19.C19_window_iterators
#print axioms Yata.C19.C19_smm_shift
#print axioms Yata.C19.C19_smm_shift_in_bounds
