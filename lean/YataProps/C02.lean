/-
  C02 — Sliding-window numeric methods equal their from-scratch definition.

  For every maximum `P` of PeriodType, every accepted length `n`, every construction value `v`
  and every input stream `xs`, in every linear ordered field `K`: the model of the method
  (`YataModel/Methods/*.lean`, tied to the Rust code by the correspondence run) constructed by
  `new n v` and fed `xs` returns at every step `i` the documented formula (`YataModel/Spec.lean`)
  evaluated from scratch on the last `n` values of `replicate n v ++ xs.take (i+1)`.

  Proved here: SMA, WMA, windowed and cumulative Integral, Momentum, Derivative,
  RateOfChange, Past, StDev (the variance under its square root), LinearVolatility, MeanAbsDev, CCI,
  TRIMA, HMA, VWMA, windowed ADI, LinReg, Conv, MedianAbsDev, SWMA (length ≥ 2; length 1 returns its input) — every C02
  method.  Independently of the theorems the correspondence run compares Rust with the exact model *and* the model with the
  from-scratch spec on every generated step.
-/
import YataProofs.Numeric.SMA
import YataProofs.Numeric.WMA
import YataProofs.Numeric.Simple
import YataProofs.Numeric.StDev
import YataProofs.Numeric.LinVol
import YataProofs.Numeric.MeanAbsDev
import YataProofs.Numeric.Composite
import YataProofs.Numeric.LinReg
import YataProofs.Numeric.Conv
import YataProofs.Numeric.MedianAbsDev
import YataProofs.Numeric.SWMA
import Mathlib.Tactic.NormNum
namespace Yata.C02
open Yata
variable {K : Type} [Field K] [LinearOrder K] [IsStrictOrderedRing K]

/-- the generic shape: constructed, runs without panic, one output per input, each equal to the spec -/
def Conforms {σ : Type} (new : Res σ) (next : σ → K → Except Panic (K × σ)) (spec : List K → K)
    (xs : List K) : Prop :=
  ∃ s0 outs s', new = .ok s0 ∧ runM next s0 xs = .ok (outs, s') ∧ outs.length = xs.length ∧
    ∀ i (hi : i < outs.length), outs[i] = spec (xs.take (i + 1))

theorem C02_sma {P n : Nat} (v : K) (hn0 : 0 < n) (hn : n ≤ P - 1) (xs : List K) :
    Conforms (SMA.new P n v) SMA.next (Spec.sma n v) xs := by
  apply method_spec _ _ (fun h s => SMA.Inv P n (history n v h) s)
  · exact SMA.new_spec v hn0 hn
  · intro h s x hinv
    obtain ⟨o, s', hnx, hinv', ho⟩ := SMA.next_spec x hn0 hinv
    exact ⟨o, s', hnx, by rw [history_snoc]; exact hinv', by rw [ho, Spec.sma, Spec.win, history_snoc]⟩

theorem C02_wma {P n : Nat} (v : K) (hn0 : 0 < n) (hn : n ≤ P - 1) (xs : List K) :
    Conforms (WMA.new P n v) WMA.next (Spec.wma n v) xs := by
  apply method_spec _ _ (fun h s => WMA.Inv P n (history n v h) s)
  · exact WMA.new_spec v hn0 hn
  · intro h s x hinv
    obtain ⟨o, s', hnx, hinv', ho⟩ := WMA.next_spec x hn0 hinv
    exact ⟨o, s', hnx, by rw [history_snoc]; exact hinv', by rw [ho, Spec.wma, Spec.win, history_snoc]⟩

theorem C02_integral {P n : Nat} (v : K) (hn0 : 0 < n) (hn : n ≤ P - 1) (xs : List K) :
    Conforms (Integral.new P n v) Integral.next (Spec.integral n v) xs :=
  Integral.spec v hn0 hn xs

theorem C02_momentum {P n : Nat} (v : K) (hn0 : 0 < n) (hn : n ≤ P - 1) (xs : List K) :
    Conforms (Momentum.new P n v) Momentum.next (Spec.momentum n v) xs :=
  Momentum.spec v hn0 hn xs

theorem C02_derivative {P n : Nat} (v : K) (hn0 : 0 < n) (hn : n ≤ P - 1) (xs : List K) :
    Conforms (Derivative.new P n v) Derivative.next (Spec.derivative n v) xs :=
  Derivative.spec v hn0 hn xs

theorem C02_rate_of_change {P n : Nat} (v : K) (hn0 : 0 < n) (hn : n ≤ P - 1) (xs : List K) :
    Conforms (RateOfChange.new P n v) RateOfChange.next (Spec.roc n v) xs :=
  RateOfChange.spec v hn0 hn xs

theorem C02_past {P n : Nat} (v : K) (hn0 : 0 < n) (hn : n ≤ P - 1) (xs : List K) :
    Conforms (Past.new P n v) Past.next (Spec.past n v) xs :=
  Past.spec v hn0 hn xs

/-- StDev: the quantity under the final square root is the sample variance (divisor n−1) of the last `n` values;
    the code returns its `sqrt` (not modelled: the run compares the squared output) -/
theorem C02_stdev {P n : Nat} (v : K) (hn2 : 2 ≤ n) (hn : n ≤ P - 1) (xs : List K) :
    ∃ s0 outs s', StDev.new P n v = .ok s0 ∧ runM StDev.next s0 xs = .ok (outs, s') ∧
      outs.length = xs.length ∧ ∀ i (hi : i < outs.length), outs[i] = Spec.variance n v (xs.take (i + 1)) :=
  StDev.spec v hn2 hn xs

/-- LinearVolatility: the sum of the absolute successive differences of the last `n` steps, never negative -/
theorem C02_linear_volatility {P n : Nat} (v : K) (hn0 : 0 < n) (hn : n ≤ P - 1) (xs : List K) :
    ∃ s0 outs s', LinearVolatility.new P n v = .ok s0 ∧ runM LinearVolatility.next s0 xs = .ok (outs, s') ∧
      outs.length = xs.length ∧
      ∀ i (hi : i < outs.length), outs[i] = Spec.linearVolatility n v (xs.take (i + 1)) ∧ 0 ≤ outs[i] :=
  LinearVolatility.spec v hn0 hn xs

/-- MeanAbsDev: mean absolute deviation of the last `n` values around their mean, never negative -/
theorem C02_mean_abs_dev {P n : Nat} (v : K) (hn0 : 0 < n) (hn : n ≤ P - 1) (xs : List K) :
    ∃ s0 outs s', MeanAbsDev.new P n v = .ok s0 ∧ runM MeanAbsDev.next s0 xs = .ok (outs, s') ∧
      outs.length = xs.length ∧
      ∀ i (hi : i < outs.length), outs[i] = Spec.meanAbsDev n v (xs.take (i + 1)) ∧ 0 ≤ outs[i] :=
  MeanAbsDev.spec v hn0 hn xs

/-- CCI: `(value − mean)/mean-absolute-deviation`, and `0` exactly when the deviation is not positive (no
    absolute threshold: the method is scale-invariant) -/
theorem C02_cci {P n : Nat} (v : K) (hn0 : 0 < n) (hn : n ≤ P - 1) (xs : List K) :
    ∃ s0 outs s', CCI.new P n v = .ok s0 ∧ runM CCI.next s0 xs = .ok (outs, s') ∧
      outs.length = xs.length ∧ ∀ i (hi : i < outs.length), outs[i] = Spec.cci n v (xs.take (i + 1)) :=
  CCI.spec v hn0 hn xs

/-- TRIMA: the simple average of the series of simple averages -/
theorem C02_trima {P n : Nat} (v : K) (hn0 : 0 < n) (hn : n ≤ P - 1) (xs : List K) :
    ∃ s0 outs s', TRIMA.new P n v = .ok s0 ∧ runM TRIMA.next s0 xs = .ok (outs, s') ∧
      outs.length = xs.length ∧ ∀ i (hi : i < outs.length), outs[i] = Spec.trima n v (xs.take (i + 1)) :=
  TRIMA.spec v hn0 hn xs

/-- HMA: WMA(⌊√n⌋) of the series 2·WMA(n/2) − WMA(n) -/
theorem C02_hma {P n : Nat} (v : K) (hn2 : 2 ≤ n) (hn : n ≤ P - 1) (xs : List K) :
    ∃ s0 outs s', HMA.new P n v = .ok s0 ∧ runM HMA.next s0 xs = .ok (outs, s') ∧
      outs.length = xs.length ∧ ∀ i (hi : i < outs.length), outs[i] = Spec.hma n v (xs.take (i + 1)) :=
  HMA.spec v hn2 hn xs

/-- VWMA: Σ price·volume / Σ volume over the last `n` pairs -/
theorem C02_vwma {P n : Nat} (v : K × K) (hn0 : 0 < n) (hn : n ≤ P - 1) (xs : List (K × K)) :
    ∃ s0 outs s', VWMA.new P n v = .ok s0 ∧ runM VWMA.next s0 xs = .ok (outs, s') ∧
      outs.length = xs.length ∧ ∀ i (hi : i < outs.length), outs[i] = Spec.vwma n v (xs.take (i + 1)) :=
  VWMA.spec v hn0 hn xs

/-- windowed ADI: Σ CLV·volume over the last `n` candles -/
theorem C02_adi_windowed {P n : Nat} (c0 : Candle K) (hn0 : 0 < n) (hn : n ≤ P - 1) (cs : List (Candle K)) :
    ∃ s0 outs s', ADI.new P n c0 = .ok s0 ∧ runM ADI.next s0 cs = .ok (outs, s') ∧
      outs.length = cs.length ∧
      ∀ i (hi : i < outs.length),
        outs[i] = ((lastN n (history n c0 (cs.take (i + 1)))).map fun c => c.clv * c.volume).sum :=
  ADI.spec c0 hn0 hn cs

/-- LinReg: the least-squares line through the last `n` values (abscissae −(n−1) … 0) at the newest abscissa -/
theorem C02_linreg {P n : Nat} (v : K) (hn2 : 2 ≤ n) (hn : n ≤ P - 1) (xs : List K) :
    ∃ s0 outs s', LinReg.new P n v = .ok s0 ∧ runM LinReg.next s0 xs = .ok (outs, s') ∧
      outs.length = xs.length ∧ ∀ i (hi : i < outs.length), outs[i] = Spec.linreg n v (xs.take (i + 1)) :=
  LinReg.spec v hn2 hn xs

/-- Conv: Σ wᵢ·xᵢ / Σ wᵢ over the last `|w|` values, weights given oldest → newest -/
theorem C02_conv {P : Nat} (ws : List K) (v : K) (h1 : 1 ≤ ws.length) (hn : ws.length ≤ P - 1) (xs : List K) :
    ∃ s0 outs s', Conv.new P ws v = .ok s0 ∧ runM Conv.next s0 xs = .ok (outs, s') ∧
      outs.length = xs.length ∧ ∀ i (hi : i < outs.length), outs[i] = Spec.conv ws v (xs.take (i + 1)) :=
  Conv.spec ws v h1 hn xs

/-- MedianAbsDev (total order of the representation = `total_cmp`): mean absolute deviation around the median -/
theorem C02_median_abs_dev [TotalCmp K] [BitEq K] [TotalLike K] {P n : Nat} (v : K) (hn2 : 2 ≤ n) (hn : n ≤ P - 1) (xs : List K) :
    ∃ s0 outs s', MedianAbsDev.new P n v = .ok s0 ∧ runM MedianAbsDev.next s0 xs = .ok (outs, s') ∧
      outs.length = xs.length ∧ ∀ i (hi : i < outs.length), outs[i] = Spec.medianAbsDev n v (xs.take (i + 1)) :=
  MedianAbsDev.spec v hn2 hn xs

/-- SWMA (length ≥ 2): triangular weights min(i+1, n−i) over the last `n` values, normalised by their sum -/
theorem C02_swma {P n : Nat} (v : K) (hn2 : 2 ≤ n) (hn : n ≤ P - 1) (xs : List K) :
    ∃ s0 outs s', SWMA.new P n v = .ok s0 ∧ runM SWMA.next s0 xs = .ok (outs, s') ∧
      outs.length = xs.length ∧ ∀ i (hi : i < outs.length), outs[i] = Spec.swma n v (xs.take (i + 1)) :=
  SWMA.spec v hn2 hn xs

/-- length 0 is rejected by every constructor that documents it (Integral accepts it: cumulative) -/
theorem C02_zero_length_rejected {P : Nat} (v : K) :
    (∃ e, SMA.new P 0 v = .err e) ∧ (∃ e, WMA.new P 0 v = .err e) ∧ (∃ e, Momentum.new P 0 v = .err e) ∧
    (∃ e, Derivative.new P 0 v = .err e) ∧ (∃ e, RateOfChange.new P 0 v = .err e) ∧ (∃ e, Past.new P 0 v = .err e) :=
  ⟨⟨_, rfl⟩, ⟨_, rfl⟩, ⟨_, rfl⟩, ⟨_, rfl⟩, ⟨_, rfl⟩, ⟨_, rfl⟩⟩

/-! non-vacuity: the hypotheses are met by the default PeriodType and a real stream, and the
    statement computes to the expected numbers (exact rationals) -/
example : (0 < 3 ∧ 3 ≤ 255 - 1) := by decide
example : Spec.sma 3 (1 : ℚ) [2, 3, 4] = 3 ∧ Spec.wma 3 (1 : ℚ) [2, 3, 4] = 20 / 6 ∧
    Spec.momentum 3 (1 : ℚ) [2, 3, 4, 5] = 3 := by
  refine ⟨?_, ?_, ?_⟩ <;>
  norm_num [Spec.sma, Spec.wma, Spec.momentum, Spec.mean, Spec.win, Spec.rampSum, Spec.cur, Spec.past,
    lastN, history, List.replicate]

end Yata.C02

#print axioms Yata.C02.C02_sma
#print axioms Yata.C02.C02_wma
#print axioms Yata.C02.C02_integral
#print axioms Yata.C02.C02_momentum
#print axioms Yata.C02.C02_derivative
#print axioms Yata.C02.C02_rate_of_change
#print axioms Yata.C02.C02_past
#print axioms Yata.C02.C02_zero_length_rejected
#print axioms Yata.C02.C02_stdev
#print axioms Yata.C02.C02_linear_volatility
#print axioms Yata.C02.C02_mean_abs_dev
#print axioms Yata.C02.C02_cci
#print axioms Yata.C02.C02_trima
#print axioms Yata.C02.C02_hma
#print axioms Yata.C02.C02_vwma
#print axioms Yata.C02.C02_adi_windowed
#print axioms Yata.C02.C02_linreg
#print axioms Yata.C02.C02_conv
#print axioms Yata.C02.C02_median_abs_dev
#print axioms Yata.C02.C02_swma
