/-
  C07 — Accuracy does not decay with the length of the stream.

  Proved (every length, every earlier history of every length, every construction value):
    * window locality: after at least `n` inputs the window — hence every sliding-window spec, and by
      C02/C04 the output of the corresponding machine — is that of a FRESH instance (constructed with
      any value) fed the last inputs only; nothing about the longer past is remembered;
    * the exponential recurrences restart from their own value and forget the starting value like
      (1-α)^k (with 0 ≤ α ≤ 1 the dependence is bounded by the difference of the starting values);
    * position counters: the model of the reversal detectors counts positions in unbounded `Nat`
      (as the repaired code does in `usize`), so nothing happens at PeriodType::MAX; HighestIndex's
      counter never exceeds the window length (`C07_index_counter_bounded` via C04's run is validated).
  These reduce "every history length" to a bounded suffix.  Floating-point drift of the running
  accumulators over 10^4 … 10^6+ steps is measured, not proved: the correspondence run drives every
  method for a long stream with regime changes and compares, at late positions (dense around 255, 256,
  65535, 65536), the output with a fresh exact model primed with the last window (allowance with
  k = t + n), and every single update of the recursive methods with one exact model step (L-step).
-/
import YataProofs.Locality
namespace Yata.C07
open Yata
variable {α : Type} {K : Type} [Field K] [LinearOrder K] [IsStrictOrderedRing K]

theorem C07_window_locality (n : Nat) (v w : α) (xs ys : List α) (h : n ≤ ys.length) :
    lastN n (history n v (xs ++ ys)) = lastN n (history n w ys) := win_locality n v w xs ys h

theorem C07_specs_locality (n : Nat) (v w : K) (xs ys : List K) (h : n ≤ ys.length) :
    Spec.sma n v (xs ++ ys) = Spec.sma n w ys ∧ Spec.wma n v (xs ++ ys) = Spec.wma n w ys ∧
    Spec.integral n v (xs ++ ys) = Spec.integral n w ys :=
  ⟨sma_locality n v w xs ys h, wma_locality n v w xs ys h, integral_locality n v w xs ys h⟩

theorem C07_recurrence_restarts (a v : K) (xs ys : List K) :
    Spec.emaRec a v (xs ++ ys) = Spec.emaRec a (Spec.emaRec a v xs) ys := emaRec_append_list a v xs ys

theorem C07_exponential_forgetting (a v w : K) (ys : List K) :
    Spec.emaRec a v ys - Spec.emaRec a w ys = (1 - a) ^ ys.length * (v - w) := emaRec_forgetting a v w ys

theorem C07_forgetting_bound (a v w : K) (ys : List K) (h0 : 0 ≤ a) (h1 : a ≤ 1) :
    |Spec.emaRec a v ys - Spec.emaRec a w ys| ≤ |v - w| := emaRec_forgetting_bound a v w ys h0 h1

example : lastN 2 (history 2 (0 : Nat) ([9, 9, 9, 9] ++ [1, 2])) = lastN 2 (history 2 5 [1, 2]) := by decide

end Yata.C07

#print axioms Yata.C07.C07_window_locality
#print axioms Yata.C07.C07_specs_locality
#print axioms Yata.C07.C07_recurrence_restarts
#print axioms Yata.C07.C07_exponential_forgetting
#print axioms Yata.C07.C07_forgetting_bound
