/-
  C07 — Accuracy does not decay with the length of the stream.

  Proved (every length, every earlier history of every length, every construction value):
    * window locality: after at least `n` inputs the window — hence every sliding-window spec, and by
      C02/C04 the output of the corresponding machine — is that of a FRESH instance (constructed with
      any value) fed the last inputs only; nothing about the longer past is remembered;
      (`C07_specs_locality`; `C07_window_specs_locality` for SWMA, LinReg, SMM, Conv, variance / StDev, MeanAbsDev,
      MedianAbsDev, Highest, Lowest, HighestIndex, LowestIndex);
    * the exponential recurrences restart from their own value and forget the starting value like
      (1-α)^k (with 0 ≤ α ≤ 1 the dependence is bounded by the difference of the starting values);
    * position counters: the model of the reversal detectors counts positions in unbounded `Nat`
      (as the repaired code does in `usize`), so nothing happens at PeriodType::MAX; HighestIndex's
      counter never exceeds the window length (`C07_index_counter_bounded` via C04's run is validated).
    * a formal drift bound for SMA under the standard model of floating-point arithmetic (every operation exact up to
      relative error u, no overflow / underflow): the float recursion `value += (x − prev)·divider` stays within
      `t·(1+u)^t·u·M·(1 + 6(1+u)³/n)` of the exact model after t steps on inputs bounded by M (`C07_sma_float_drift`) —
      the linear shape of the allowance of DESIGN §3.2; the rounding function is a parameter, IEEE round-to-nearest is
      one instance (that instance is assumed, not proved, to satisfy the standard model).
    * for the exponential recurrence the same model gives a bound that does not grow at all: the update is contractive and
      the drift stays below `c/(1−ρ)` at every step of every stream (`C07_ema_float_drift_uniform`).
    * WMA adds its running `total` into `numerator` at every step; the same analysis bounds the drift of `total` linearly
      and that of `numerator` only quadratically, `t·q^t·cN + t²·q^(2t+2)·cT` (`C07_wma_float_drift_quadratic`) — this is
      why the linear allowance is *not* guaranteed for WMA / HMA on very long streams (known finding numeric-drift:hma).
    * Vidya (its |CMO| clamped to 1 by a `fix:` commit): started in ANY state — the two never-recomputed running sums may
      hold rounding residue of either sign — every output of every run stays inside the range of the data
      (`C07_vidya_residue_cannot_leave_range`); before the fix the output grew geometrically on a flat stretch.
  These reduce "every history length" to a bounded suffix.  Floating-point drift of the running
  accumulators over 10^4 … 10^6+ steps is measured, not proved: the correspondence run drives every
  method for a long stream with regime changes and compares, at late positions (dense around 255, 256,
  65535, 65536), the output with a fresh exact model primed with the last window (allowance with
  k = t + n), and every single update of the recursive methods with one exact model step (L-step).
-/
import YataProofs.Locality
import YataProofs.LocalityAll
import YataProofs.FloatBound
import YataProofs.FloatBoundEMA
import YataProofs.FloatBoundWMA
import YataProofs.VidyaRobust
import YataProofs.SelectionIndex
namespace Yata.C07
open Yata
variable {α : Type} {K : Type} [Field K] [LinearOrder K] [IsStrictOrderedRing K]

theorem C07_window_locality (n : Nat) (v w : α) (xs ys : List α) (h : n ≤ ys.length) :
    lastN n (history n v (xs ++ ys)) = lastN n (history n w ys) := win_locality n v w xs ys h

theorem C07_specs_locality (n : Nat) (v w : K) (xs ys : List K) (h : n ≤ ys.length) :
    Spec.sma n v (xs ++ ys) = Spec.sma n w ys ∧ Spec.wma n v (xs ++ ys) = Spec.wma n w ys ∧
    Spec.integral n v (xs ++ ys) = Spec.integral n w ys :=
  ⟨sma_locality n v w xs ys h, wma_locality n v w xs ys h, integral_locality n v w xs ys h⟩

theorem C07_window_specs_locality [Inhabited K] (n : Nat) (hn : 2 ≤ n) (v w : K) (xs ys : List K) (h : n ≤ ys.length)
    (ws : List K) (hw : ws.length ≤ ys.length) :
    Spec.swma n v (xs ++ ys) = Spec.swma n w ys ∧
    Spec.linreg n v (xs ++ ys) = Spec.linreg n w ys ∧
    Spec.smm n v (xs ++ ys) = Spec.smm n w ys ∧
    Spec.conv ws v (xs ++ ys) = Spec.conv ws w ys ∧
    Spec.variance n v (xs ++ ys) = Spec.variance n w ys ∧
    Spec.meanAbsDev n v (xs ++ ys) = Spec.meanAbsDev n w ys ∧
    Spec.medianAbsDev n v (xs ++ ys) = Spec.medianAbsDev n w ys ∧
    Spec.highest n v (xs ++ ys) = Spec.highest n w ys ∧
    Spec.lowest n v (xs ++ ys) = Spec.lowest n w ys ∧
    Spec.highestIndex n v (xs ++ ys) = Spec.highestIndex n w ys ∧
    Spec.lowestIndex n v (xs ++ ys) = Spec.lowestIndex n w ys := window_specs_locality n hn v w xs ys h ws hw

/-- SMA's drift is at most linear in the number of steps (standard model of rounding; `fl` any rounding with relative
    error ≤ u, `d` the rounded `1/n`) -/
theorem C07_sma_float_drift {P n : Nat} (hn : 0 < n) (M : K) (fl : K → K) (u : K) (hu : 0 ≤ u)
    (hfl : ∀ x, |fl x - x| ≤ u * |x|) (d : K) (hd : |d - 1 / (n : K)| ≤ u / (n : K))
    (xs hist : List K) (s : SMA K) (hinv : SMA.Inv P n hist s) (hh : ∀ x ∈ hist, |x| ≤ M) (hx : ∀ x ∈ xs, |x| ≤ M) :
    ∃ outs s', runM SMA.next s xs = .ok (outs, s') ∧
      |FloatBound.smaFl fl d s.value (FloatBound.pairsOfRun s xs) - s'.value| ≤
        (xs.length : K) * (1 + u) ^ xs.length * (u * M * (1 + 6 * (1 + u) ^ 3 / (n : K))) :=
  FloatBound.sma_float_drift hn M fl u hu hfl d hd xs hist s hinv hh hx

/-- EMA's drift is bounded uniformly in the length of the stream (standard model of rounding; ρ < 1 holds whenever α is
    not of the order of the unit round-off) -/
theorem C07_ema_float_drift_uniform (fl : K → K) (u : K) (hu : 0 ≤ u) (hfl : ∀ x, |fl x - x| ≤ u * |x|)
    (α : K) (h0 : 0 ≤ α) (h1 : α ≤ 1) (a : K) (ha : |a - α| ≤ u * α) (M : K)
    (hρ : (1 + u) * (1 - α + ((1 + u) ^ 3 - 1) * α) < 1)
    (xs : List K) (hx : ∀ x ∈ xs, |x| ≤ M) (v0 : K) (hv : |v0| ≤ M) :
    |FloatBound.emaFl fl a v0 xs - Spec.emaRec α v0 xs| ≤
      ((1 + u) * ((1 + u) ^ 3 - 1) * α * (2 * M) + u * M) / (1 - (1 + u) * (1 - α + ((1 + u) ^ 3 - 1) * α)) := by
  have hpos : 0 < 1 - (1 + u) * (1 - α + ((1 + u) ^ 3 - 1) * α) := by linarith
  have hM : 0 ≤ M := le_trans (abs_nonneg _) hv
  have hc : 0 ≤ (1 + u) * ((1 + u) ^ 3 - 1) * α * (2 * M) + u * M := by
    have : 0 ≤ (1 + u) ^ 3 - 1 := by nlinarith [sq_nonneg u, mul_nonneg hu (sq_nonneg u)]
    positivity
  apply FloatBound.ema_drift_uniform fl u hu hfl α h0 h1 a ha M hρ _ _ xs hx v0 v0 hv
  · simp only [sub_self, abs_zero]; exact div_nonneg hc (le_of_lt hpos)
  · rw [mul_div_cancel₀ _ (ne_of_gt hpos)]

/-- WMA (the recursion `numerator += L·x + total; total += prev − x` with the model's exact values as reference): the
    provable drift bound is quadratic in the number of steps -/
theorem C07_wma_float_drift_quadratic (fl : K → K) (u : K) (hu : 0 ≤ u) (hfl : ∀ x, |fl x - x| ≤ u * |x|)
    (L M A B : K) (hL : 0 ≤ L) (hM : 0 ≤ M) (hA : 0 ≤ A) (hB : 0 ≤ B) (steps : List (K × K)) (N0 T0 : K)
    (hb : FloatBound.BoundedW L M A B (N0, T0) steps) :
    |(FloatBound.wmaFl fl L (N0, T0) steps).1 - (FloatBound.wmaEx L (N0, T0) steps).1| ≤
      (steps.length : K) * (1 + u) ^ steps.length * ((1 + u) * u * (L * M + A) + u * B) +
        (steps.length : K) ^ 2 * (1 + u) ^ (2 * steps.length + 2) * (u * A + 2 * u * M * (1 + u)) :=
  FloatBound.wma_drift_quadratic fl u hu hfl L M A B hL hM hA hB steps N0 T0 hb

/-- the exact recursion used above is the model's own update -/
theorem C07_wma_model_update (s : WMA K) (x prev : K) (w : Window K) (h : s.window.push x = .ok (prev, w)) :
    ∃ s', s.next x = .ok (s'.numerator * s'.invert_sum, s') ∧
      (s'.numerator, s'.total) = FloatBound.wmaEx s.float_length (s.numerator, s.total) [(x, prev)] := by
  refine ⟨{ s with numerator := s.numerator + (s.float_length * x + s.total), total := s.total + (prev - x), window := w }, ?_, rfl⟩
  simp [WMA.next, h, WMA.peek]

theorem C07_recurrence_restarts (a v : K) (xs ys : List K) :
    Spec.emaRec a v (xs ++ ys) = Spec.emaRec a (Spec.emaRec a v xs) ys := emaRec_append_list a v xs ys

theorem C07_exponential_forgetting (a v w : K) (ys : List K) :
    Spec.emaRec a v ys - Spec.emaRec a w ys = (1 - a) ^ ys.length * (v - w) := emaRec_forgetting a v w ys

theorem C07_forgetting_bound (a v w : K) (ys : List K) (h0 : 0 ≤ a) (h1 : a ≤ 1) :
    |Spec.emaRec a v ys - Spec.emaRec a w ys| ≤ |v - w| := emaRec_forgetting_bound a v w ys h0 h1

/-- whatever the past left in Vidya's running sums, a run over inputs from `[lo, hi]` that starts with its previous output
    in `[lo, hi]` keeps every output in `[lo, hi]` (`0 ≤ f ≤ 1` holds for every accepted length: `f = 2/(1+n)`, `n ≥ 1`) -/
theorem C07_vidya_residue_cannot_leave_range (lo hi : K) (xs : List K) (s : Vidya K) (os : List K) (s' : Vidya K)
    (hf0 : 0 ≤ s.f) (hf1 : s.f ≤ 1) (hl : lo ≤ s.last_output) (hh : s.last_output ≤ hi)
    (hx : ∀ x ∈ xs, lo ≤ x ∧ x ≤ hi) (hr : runM Vidya.next s xs = .ok (os, s')) : ∀ o ∈ os, lo ≤ o ∧ o ≤ hi :=
  Vidya.run_hull_any_state lo hi xs s os s' hf0 hf1 hl hh hx hr

section
variable {β K' : Type} [LinearOrder K'] [FloatLike β K'] [DecidableLT β] [DecidableLE β] {P : Nat}
/-- the position counters of HighestIndex / LowestIndex are advanced in PeriodType arithmetic (`self.index += 1`); in
    every invariant state (every state reachable from the constructor, by `next_spec`) they are below the window length,
    which is at most `PeriodType::MAX − 1`: the increment never reaches the capacity of PeriodType however long the stream -/
theorem C07_index_counter_bounded :
    (∀ s : HighestIndex β, HighestIndex.Inv P s → s.index < s.window.size ∧ s.window.size ≤ P - 1 ∧
        chkAdd P s.index 1 = .ok (s.index + 1)) ∧
    (∀ s : LowestIndex β, LowestIndex.Inv P s → s.index < s.window.size ∧ s.window.size ≤ P - 1 ∧
        chkAdd P s.index 1 = .ok (s.index + 1)) := by
  constructor
  · intro s h
    have h1 := HighestIndex.index_lt h
    have h2 : s.window.size ≤ P - 1 := h.winv.4
    exact ⟨h1, h2, by unfold chkAdd; rw [if_pos (by omega)]⟩
  · intro s h
    have h1 := LowestIndex.index_lt h
    have h2 : s.window.size ≤ P - 1 := h.winv.4
    exact ⟨h1, h2, by unfold chkAdd; rw [if_pos (by omega)]⟩
end

example : lastN 2 (history 2 (0 : Nat) ([9, 9, 9, 9] ++ [1, 2])) = lastN 2 (history 2 5 [1, 2]) := by decide

end Yata.C07

#print axioms Yata.C07.C07_window_locality
#print axioms Yata.C07.C07_specs_locality
#print axioms Yata.C07.C07_recurrence_restarts
#print axioms Yata.C07.C07_exponential_forgetting
#print axioms Yata.C07.C07_forgetting_bound
#print axioms Yata.C07.C07_window_specs_locality
#print axioms Yata.C07.C07_sma_float_drift
#print axioms Yata.C07.C07_ema_float_drift_uniform
#print axioms Yata.C07.C07_wma_float_drift_quadratic
#print axioms Yata.C07.C07_wma_model_update
#print axioms Yata.C07.C07_vidya_residue_cannot_leave_range
#print axioms Yata.C07.C07_index_counter_bounded
