/-
  C09 — Streaming, batch and chunked evaluation agree; clones are independent.

  The model of a method is a pure state machine `next : σ → ι → Except Panic (ο × σ)`; the API
  routes are modelled in `YataModel/Runner.lean`.  Proved once, for every machine:
    * `over` yields exactly one output per input;
    * feeding `xs ++ ys` equals feeding `xs` and then `ys` from the state reached — hence every way
      of cutting a stream into consecutive chunks (including empty ones) gives the same outputs;
    * `new_over []` constructs nothing and returns `[]`; `new_over (x :: xs)` is `over` from `new x`;
    * `apply` writes back the same sequence as `over`;
    * the history wrapper returns the inner outputs and `get i` is the i-th newest of them;
    * the last-value wrapper is the inner machine after one extra leading copy of the initial value,
      and its `peek` is the output produced last;
    * `peek` returns the value most recently produced, per Peekable model.
  Determinism and clone independence are definitional for pure functions in the model; for the
  Rust code they are facts about derived `Clone` on owned data and are checked by the correspondence
  run (every route × random chunkings × clone points × disturbing the original), not proved.
-/
import YataProofs.Runner
import YataProofs.Peek
namespace Yata.C09
open Yata
variable {σ ι ο : Type}

theorem C09_one_output_per_input (next : σ → ι → Except Panic (ο × σ)) (s : σ) (xs : List ι) {os : List ο} {s' : σ}
    (h : runM next s xs = .ok (os, s')) : os.length = xs.length := runM_length next s xs h

theorem C09_chunking (next : σ → ι → Except Panic (ο × σ)) (s : σ) (xs ys : List ι) :
    runM next s (xs ++ ys) =
      match runM next s xs with
      | .error e => .error e
      | .ok (os, s') =>
        match runM next s' ys with
        | .error e => .error e
        | .ok (os', s'') => .ok (os ++ os', s'') := runM_append next s xs ys

theorem C09_empty_chunk (next : σ → ι → Except Panic (ο × σ)) (s : σ) : runM next s [] = .ok ([], s) := rfl

theorem C09_new_over (new : ι → Res σ) (next : σ → ι → Except Panic (ο × σ)) :
    newOver new next [] = .ok [] ∧
    ∀ (x : ι) (xs : List ι) {s : σ}, new x = .ok s → ∀ {os : List ο} {s' : σ},
      runM next s (x :: xs) = .ok (os, s') → newOver new next (x :: xs) = .ok os :=
  ⟨rfl, fun x xs _ hs _ _ hr => newOver_cons new next x xs hs hr⟩

theorem C09_apply (next : σ → ι → Except Panic (ι × σ)) (s : σ) (xs : List ι) :
    applyM next s xs = runM next s xs := rfl

theorem C09_with_history (next : σ → ι → Except Panic (ο × σ)) (s : σ) (xs : List ι)
    {os : List ο} {s' : σ} (hr : runM next s xs = .ok (os, s')) :
    runM (WithHistory.next next) (WithHistory.new s) xs = .ok (os, { history := os, instance_ := s' }) ∧
    ∀ i, ({ history := os, instance_ := s' } : WithHistory σ ο).get i = os.reverse[i]? := by
  refine ⟨by simpa [WithHistory.new] using withHistory_run next s [] xs hr, fun i => withHistory_get _ i⟩

theorem C09_with_last_value (next : σ → ι → Except Panic (ο × σ)) (s : σ) (init : ι) (xs : List ι)
    {o0 : ο} {s0 : σ} (h0 : next s init = .ok (o0, s0)) {os : List ο} {s' : σ}
    (hr : runM next s0 xs = .ok (os, s')) :
    ∃ w0, WithLastValue.new next s init = .ok w0 ∧ w0.peek = o0 ∧
      runM (WithLastValue.next next) w0 xs =
        .ok (os, { last_value := (o0 :: os).getLast (by simp), instance_ := s' }) :=
  withLastValue_run next s init xs h0 hr

/-- `peek` = the value most recently produced (a selection of the Peekable models; the others have
    the same one-line proofs in `YataProofs/Peek.lean`) -/
theorem C09_peek_sma {α : Type} [Zero α] [One α] [Add α] [Sub α] [Mul α] [Div α] [Neg α] [NatCast α]
    [LT α] [DecidableLT α] [LE α] [DecidableLE α] (s : SMA α) (x : α) {o : α} {s' : SMA α}
    (h : s.next x = .ok (o, s')) : s'.peek = o := SMA.peek_next s x h

theorem C09_peek_ema {α : Type} [Add α] [Sub α] [Mul α] (s : EMA α) (x : α) : (s.next x).2.peek = (s.next x).1 := rfl

theorem C09_peek_wma {α : Type} [Zero α] [One α] [Add α] [Sub α] [Mul α] [Div α] [Neg α] [NatCast α]
    [LT α] [DecidableLT α] [LE α] [DecidableLE α] (s : WMA α) (x : α) {o : α} {s' : WMA α}
    (h : s.next x = .ok (o, s')) : s'.peek = o := WMA.peek_next s x h

/-! non-vacuity: a concrete machine (running sum over Nat) chunked two ways -/
example : runM (fun (s : Nat) (x : Nat) => Except.ok (s + x, s + x)) 0 ([1, 2] ++ [3]) =
    .ok ([1, 3, 6], 6) := by rfl

end Yata.C09

#print axioms Yata.C09.C09_one_output_per_input
#print axioms Yata.C09.C09_chunking
#print axioms Yata.C09.C09_empty_chunk
#print axioms Yata.C09.C09_new_over
#print axioms Yata.C09.C09_apply
#print axioms Yata.C09.C09_with_history
#print axioms Yata.C09.C09_with_last_value
#print axioms Yata.C09.C09_peek_sma
#print axioms Yata.C09.C09_peek_ema
#print axioms Yata.C09.C09_peek_wma
