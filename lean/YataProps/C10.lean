/-
  C10 — Invalid parameters are rejected with an error; accepted instances never panic.

  For every maximum `P ≥ 2` of PeriodType and EVERY parameter value `0 ≤ n ≤ P` (every pair for the
  two-parameter methods) the model constructor returns `Ok` or `Err` — never a panic or an overflow
  — and returns `Err` on the documented too-small lengths and on `PeriodType::MAX`.
  "Accepted instances never panic" is part of the C02/C03/C04/C14/C17 theorems for the methods
  proved there (`runM … = .ok …` for every stream) and, among the indicators, for Ichimoku, MoneyFlowIndex,
  TrendStrengthIndex and Donchian over whole candle streams (`C10_indicators_never_panic`); an indicator's `init`
  returns `WrongConfig` exactly as its `validate` dictates (`C10_indicator_validate_rejects`, five representative models;
  every model's init result is compared with the real `init` for every generated configuration). For the others it is
  covered by the correspondence run: all 256 values of every length parameter (all 65 536 pairs in
  the thorough tier) in debug and release builds, every indicator parameter swept over all its
  values / boundary classes incl. NaN and infinities, accepted instances driven with valid candles.
  String parsing is total by C18 (`parseMA`, `parseSource` are total functions compared with Rust).
-/
import YataProofs.Ctors
import YataProps.C02
import YataProofs.Indicators.IchiRun
import YataProofs.Indicators.MFIRange
import YataProofs.Indicators.TSIndRange
import YataProofs.Indicators.More
import YataProofs.Indicators.RealisesEvery
import YataProofs.Indicators.RSIRun
import YataProofs.Indicators.ADXRun
import YataProofs.Indicators.MACDRun
namespace Yata.C10
open Yata
variable {K : Type} [Field K] [LinearOrder K] [IsStrictOrderedRing K] [DecidableEq K]

theorem C10_constructors_total (P : Nat) (hP : 2 ≤ P) (n : Nat) (hn : n ≤ P) (v : K) :
    (SMA.new P n v).noPanic ∧ (WMA.new P n v).noPanic ∧ (EMA.new P n v).noPanic ∧ (DMA.new P n v).noPanic ∧
    (TMA.new P n v).noPanic ∧ (DEMA.new P n v).noPanic ∧ (TEMA.new P n v).noPanic ∧ (RMA.new P n v).noPanic ∧
    (WSMA.new P n v).noPanic ∧ (SWMA.new P n v).noPanic ∧ (TRIMA.new P n v).noPanic ∧ (HMA.new P n v).noPanic ∧
    (LinReg.new P n v).noPanic ∧ (StDev.new P n v).noPanic ∧ (Integral.new P n v).noPanic ∧
    (Derivative.new P n v).noPanic ∧ (Momentum.new P n v).noPanic ∧ (RateOfChange.new P n v).noPanic ∧
    (LinearVolatility.new P n v).noPanic ∧ (Vidya.new P n v).noPanic :=
  ⟨(SMA.new_total P hP n hn v).1, (WMA.new_total P hP n hn v).1, (EMA.new_total P hP n hn v).1,
   (DMA.new_total P hP n hn v).1, (TMA.new_total P hP n hn v).1, (DEMA.new_total P hP n hn v).1,
   (TEMA.new_total P hP n hn v).1, (RMA.new_total P hP n hn v).1, (WSMA.new_total P hP n hn v).1,
   (SWMA.new_total P hP n hn v).1, (TRIMA.new_total P hP n hn v).1, (HMA.new_total P hP n hn v).1,
   (LinReg.new_total P hP n hn v).1, (StDev.new_total P hP n hn v).1, (Integral.new_total P hP n hn v).1,
   (Derivative.new_total P hP n hn v).1, (Momentum.new_total P hP n hn v).1, (RateOfChange.new_total P hP n hn v).1,
   (LinearVolatility.new_total P hP n hn v).1, (Vidya.new_total P hP n hn v).1⟩

/-- documented rejections -/
theorem C10_rejections (P : Nat) (hP : 2 ≤ P) (n : Nat) (hn : n ≤ P) (v : K) :
    (n = 0 ∨ n = P → (SMA.new P n v).isErr ∧ (WMA.new P n v).isErr ∧ (EMA.new P n v).isErr ∧
      (SWMA.new P n v).isErr ∧ (Momentum.new P n v).isErr ∧ (Derivative.new P n v).isErr) ∧
    (n = 0 ∨ n = 1 ∨ n = P → (HMA.new P n v).isErr ∧ (LinReg.new P n v).isErr ∧ (StDev.new P n v).isErr) ∧
    (n = 0 ∨ n > P / 2 → (WSMA.new P n v).isErr) ∧ (n = P → (Integral.new P n v).isErr) :=
  ⟨fun h => ⟨(SMA.new_total P hP n hn v).2 h, (WMA.new_total P hP n hn v).2 h, (EMA.new_total P hP n hn v).2 h,
     (SWMA.new_total P hP n hn v).2 h, (Momentum.new_total P hP n hn v).2 h, (Derivative.new_total P hP n hn v).2 h⟩,
   fun h => ⟨(HMA.new_total P hP n hn v).2 h, (LinReg.new_total P hP n hn v).2 h, (StDev.new_total P hP n hn v).2 h⟩,
   (WSMA.new_total P hP n hn v).2, (Integral.new_total P hP n hn v).2⟩

/-- every pair of PeriodType values -/
theorem C10_two_parameter_constructors (P : Nat) (hP : 2 ≤ P) (a b : Nat) (ha : a ≤ P) (hb : b ≤ P) (v : K) :
    (UpperReversalSignal.new P a b v).noPanic ∧ (LowerReversalSignal.new P a b v).noPanic ∧ (TSI.new P a b v).noPanic :=
  ⟨UpperReversalSignal.new_total P hP a b ha hb v, LowerReversalSignal.new_total P hP a b ha hb v,
   TSI.new_total P hP a b ha hb v⟩

theorem C10_conv (P : Nat) (hP : 2 ≤ P) (ws : List K) (v : K) :
    (Conv.new P ws v).noPanic ∧ (ws.length = 0 ∨ ws.length ≥ P → (Conv.new P ws v).isErr) := Conv.new_total P hP ws v

/-- accepted instances never panic (one instance; the same conclusion is part of every C02–C04 theorem) -/
theorem C10_accepted_sma_never_panics {P n : Nat} (v : K) (hn0 : 0 < n) (hn : n ≤ P - 1) (xs : List K) :
    ∃ s0 outs s', SMA.new P n v = .ok s0 ∧ runM SMA.next s0 xs = .ok (outs, s') := by
  obtain ⟨s0, outs, s', h1, h2, _⟩ := Yata.C02.C02_sma v hn0 hn xs
  exact ⟨s0, outs, s', h1, h2⟩

open Yata.Ind in
/-- accepted indicator instances never panic, over every candle stream (exact-arithmetic models) -/
theorem C10_indicators_never_panic {P : Nat} (cs : List (Candle ℚ)) :
    (∀ (c : IchiCfg) (k0 : Candle ℚ), 0 < c.l1 → c.l1 < c.l2 → c.l2 < c.l3 → c.l3 ≤ P - 1 → 0 < c.m → c.m < P →
      ∃ s0 outs s', Ichi.init P c k0 = .ok s0 ∧ runM Ichi.vals s0 cs = .ok (outs, s')) ∧
    (∀ (period : Nat) (zone : ℚ) (c0 : Candle ℚ) (s0 : MFI), MFI.init P period zone c0 = .ok s0 →
      (∀ c ∈ cs, 0 ≤ c.volume) → ∃ outs s', runM MFI.vals s0 cs = .ok (outs, s')) ∧
    (∀ (period ro : Nat) (zone : ℚ) (source : Source) (src0 : ℚ) (s0 : TSInd) (xs : List ℚ),
      TSInd.init P period zone ro source src0 = .ok s0 → ∃ outs s', runM TSInd.vals s0 xs = .ok (outs, s')) ∧
    (∀ (n : Nat) (k0 : Candle ℚ), 1 < n → n ≤ P - 1 →
      ∃ s0 outs s', Channel.init P n 1 true k0 = .ok s0 ∧ runM (fun s k => Channel.donchianVals s k) s0 cs = .ok (outs, s')) := by
  refine ⟨?_, ?_, ?_, ?_⟩
  · intro c k0 h1 h12 h23 h3 hm0 hm
    obtain ⟨s0, outs, s', a, b, _⟩ := Ichi.run_ok (P := P) c k0 h1 h12 h23 h3 hm0 hm cs
    exact ⟨s0, outs, s', a, b⟩
  · intro period zone c0 s0 h0 hv
    obtain ⟨outs, s', a, _⟩ := MFI.run_range zone c0 s0 h0 cs hv
    exact ⟨outs, s', a⟩
  · intro period ro zone source src0 s0 xs h0
    obtain ⟨hinv, hc, _, _⟩ := TSInd.init_inv zone source src0 s0 h0
    obtain ⟨os, s', hr, _⟩ := runM_invariant TSInd.vals
      (fun h s => TSInd.Inv P (List.replicate period src0 ++ h) s ∧ TSInd.Consts s) (fun _ _ => True)
      (by
        rintro h s x ⟨hi, hcs⟩
        obtain ⟨p, q, κn, κd, s', hv, _, hi', hc'⟩ := TSInd.vals_sq_le x hi hcs
        exact ⟨_, s', hv, ⟨by rw [← List.append_assoc]; exact hi', hc'⟩, trivial⟩)
      xs [] s0 ⟨by simpa using hinv, hc⟩
    exact ⟨os, s', hr⟩
  · intro n k0 hn1 hn
    obtain ⟨s0, outs, s', a, b, _⟩ := Channel.donchian_run (P := P) k0 hn1 hn cs
    exact ⟨s0, outs, s', a, b⟩

open Yata.Ind in
/-- `init` refuses exactly what `validate` refuses (five representative indicator models) -/
theorem C10_indicator_validate_rejects (P : Nat) (k : Candle ℚ) :
    (∀ c : IchiCfg, Ichi.validate P c = false → Ichi.init P c k = .err .wrongConfig) ∧
    (∀ c : StochCfg, Stoch.validate c = false → Stoch.init P c k = .err .wrongConfig) ∧
    (∀ c : KeltnerCfg, Keltner.validate c = false → Keltner.init P c k = .err .wrongConfig) ∧
    (∀ c : EnvCfg, Env.validate c = false → Env.init P c k = .err .wrongConfig) ∧
    (∀ c : AOCfg, AO.validate P c = false → AO.init P c k = .err .wrongConfig) :=
  ⟨fun c h => by simp [Ichi.init, h], fun c h => by simp [Stoch.init, h], fun c h => by simp [Keltner.init, h],
   fun c h => by simp [Env.init, h], fun c h => by simp [AO.init, h]⟩

open Yata.Ind in
/-- accepted moving averages never panic, EVERY kind: from the constructor (any accepted length, any first value) every
    run over every stream succeeds and returns the documented formula at every step -/
theorem C10_every_ma_kind_never_panics {P : Nat} (k : MAKind) (n : Nat) (v : ℚ) (h : validLen P k n) (xs : List ℚ) :
    ∃ m outs m', MA.init P { kind := k, length := n } v = .ok m ∧ runM MAInst.next m xs = .ok (outs, m') ∧
      outs.length = xs.length ∧ ∀ i (hi : i < outs.length), outs[i] = specOf k n v (xs.take (i + 1)) := by
  obtain ⟨m, hm, hr⟩ := every_kind_realises (P := P) k n v h
  obtain ⟨outs, m', hrun, _, hlen, houts⟩ := hr.run xs
  exact ⟨m, outs, m', hm, hrun, hlen, fun i hi => by simpa using houts i hi⟩

open Yata.Ind in
/-- accepted indicator instances configured with ANY kinds of moving average never panic, over every candle stream:
    RSI, MACD, ADX (each from its constructor) -/
theorem C10_configurable_indicators_never_panic {P : Nat} (cs : List (Candle ℚ)) :
    (∀ (c : RSICfg) (k0 : Candle ℚ), RSI.validate c = true → validLen P c.ma.kind c.ma.length →
      ∃ s0 outs s', RSI.init P c k0 = .ok s0 ∧ runM RSI.vals s0 cs = .ok (outs, s')) ∧
    (∀ (c : MACDCfg) (k0 : Candle ℚ), MACD.validate c = true → validLen P c.ma1.kind c.ma1.length →
      validLen P c.ma2.kind c.ma2.length → validLen P c.signal.kind c.signal.length →
      ∃ s0 outs s', MACD.init P c k0 = .ok s0 ∧ runM (fun s k => s.vals k none) s0 cs = .ok (outs, s')) ∧
    (∀ (m1 m2 : MA) (period1 : Nat) (zone : ℚ) (k0 : Candle ℚ) (s0 : ADX), validLen P m1.kind m1.length →
      validLen P m2.kind m2.length → ADX.init P m1 m2 period1 zone k0 = .ok s0 →
      ∃ outs s', runM ADX.step s0 cs = .ok (outs, s')) := by
  refine ⟨?_, ?_, ?_⟩
  · intro c k0 hv h1
    obtain ⟨s0, outs, s', a, b, _⟩ := RSI.run_range_every_kind c k0 hv h1 cs
    exact ⟨s0, outs, s', a, b⟩
  · intro c k0 hv h1 h2 h3
    obtain ⟨s0, outs, s', a, b, _⟩ := MACD.run_spec (P := P) c k0 hv h1 h2 h3 cs
    exact ⟨s0, outs, s', a, b⟩
  · intro m1 m2 period1 zone k0 s0 h1 h2 h0
    obtain ⟨outs, s', a, _⟩ := ADX.run_ok m1 m2 period1 zone k0 s0 h1 h2 h0 cs
    exact ⟨outs, s', a⟩


/-! non-vacuity: the default PeriodType -/
example : (SMA.new 255 255 (1 : ℚ)).isErr ∧ (SMA.new 255 254 (1 : ℚ)).noPanic := by
  constructor
  · exact (SMA.new_total 255 (by norm_num) 255 (by norm_num) 1).2 (Or.inr rfl)
  · exact (SMA.new_total 255 (by norm_num) 254 (by norm_num) 1).1

end Yata.C10

#print axioms Yata.C10.C10_constructors_total
#print axioms Yata.C10.C10_rejections
#print axioms Yata.C10.C10_two_parameter_constructors
#print axioms Yata.C10.C10_conv
#print axioms Yata.C10.C10_accepted_sma_never_panics
#print axioms Yata.C10.C10_indicators_never_panic
#print axioms Yata.C10.C10_indicator_validate_rejects
#print axioms Yata.C10.C10_every_ma_kind_never_panics
#print axioms Yata.C10.C10_configurable_indicators_never_panic
