/-
  C01 — Window is a faithful fixed-capacity FIFO for every size, phase and history.

  Only property statements live here; the proofs are in `YataProofs/Window.lean`.
  Model: `YataModel/Window.lean` (line-for-line model of src/core/window.rs).
  Quantifiers: every maximum `P` of PeriodType, every capacity `n ≤ P - 1`, every element type
  `α`, every construction value, every input list (hence every ring phase / fill level),
  every index, every split point `j` of an iterator.
-/
import YataProofs.Window
namespace Yata.C01
open Yata Yata.Window
variable {α : Type} {P : Nat}

/-- A window built by `new n v` and fed any `xs`: the pushes returned the values pushed `n`
    steps before (the construction value counting as `n` earlier pushes) and the window now
    represents exactly the last `n` elements of `replicate n v ++ xs`. -/
theorem C01_fifo {n : Nat} (v : α) (hn : n ≤ P - 1) (hpos : 0 < n) (xs : List α) :
    ∃ w0 w', Window.new P n v = .ok w0 ∧
      pushAll w0 xs = .ok ((history n v xs).take xs.length, w') ∧ Inv P w' ∧ w'.size = n ∧
      toList w' = lastN n (history n v xs) :=
  new_pushAll_spec v hn hpos xs

/-- one push from any reachable state -/
theorem C01_push {w : Window α} (x : α) (h : Inv P w) (hpos : 0 < w.size) :
    ∃ old w', push w x = .ok (old, w') ∧ Inv P w' ∧ w'.size = w.size ∧
      (toList w).head? = some old ∧ toList w' = (toList w).tail ++ [x] :=
  push_spec x h hpos

/-- `new` rejects (debug panic) exactly the capacities above `PeriodType::MAX - 1` -/
theorem C01_new (n : Nat) (v : α) :
    (n ≤ P - 1 → ∃ w, Window.new P n v = .ok w ∧ Inv P w ∧ toList w = List.replicate n v) ∧
    (¬ n ≤ P - 1 → Window.new P n v = .error .assertFailed) :=
  ⟨fun h => by obtain ⟨w, a, b, c, _⟩ := new_ok (P := P) v h; exact ⟨w, a, b, c⟩, new_err v⟩

theorem C01_newest_oldest {w : Window α} (h : Inv P w) (hpos : 0 < w.size) :
    (∃ v, newest w = .ok v ∧ (toList w).getLast? = some v) ∧
    (∃ v, oldest w = .ok v ∧ (toList w).head? = some v) :=
  ⟨newest_spec h hpos, oldest_spec h hpos⟩

/-- `get k` is the k-th newest element, `none` outside `0..n` (never another element);
    `w[k]` returns the same element and panics exactly where `get` is `none`. -/
theorem C01_get_index {w : Window α} (h : Inv P w) (k : Nat) :
    get P w k = .ok ((toList w).reverse[k]?) ∧
    idx P w k = (match (toList w).reverse[k]? with
      | some v => .ok v
      | none => .error .indexOOB) :=
  ⟨get_spec h k, idx_spec h k⟩

/-- `iter()` split at any point `j`: after consuming `j` items (at most `n`) what remains is
    the newest→oldest sequence without its first `min j n` items; `size_hint`, `count` and
    `last` describe exactly that remainder (`last = none` once exhausted). -/
theorem C01_iter {w : Window α} (h : Inv P w) (j : Nat) :
    ∃ it, iterAdvance w j (iterStart w) = .ok it ∧
      iterCollect w (w.size + 1) it = .ok ((toList w).reverse.drop (min j w.size)) ∧
      iterSizeHint it = (w.size - min j w.size, some (w.size - min j w.size)) ∧
      iterCount it = w.size - min j w.size ∧
      iterLast w it = .ok (((toList w).reverse.drop (min j w.size)).getLast?) := by
  obtain ⟨it, ha, hi⟩ := iterAdvance_spec h j (iterStart w) 0 (iterStart_inv w)
  rw [Nat.zero_add] at hi
  refine ⟨it, ha, iterCollect_spec h _ it _ hi (by omega), ?_, ?_, iterLast_spec h hi⟩
  · simp [iterSizeHint, hi.2.1]
  · simp [iterCount, hi.2.1]

/-- `iter_rev()` split at any point `j` -/
theorem C01_iter_rev {w : Window α} (h : Inv P w) (j : Nat) :
    ∃ it, iterRevAdvance w j (iterStart w) = .ok it ∧
      iterRevCollect w (w.size + 1) it = .ok ((toList w).drop (min j w.size)) ∧
      iterSizeHint it = (w.size - min j w.size, some (w.size - min j w.size)) ∧
      iterCount it = w.size - min j w.size ∧
      iterRevLast w it = .ok (((toList w).drop (min j w.size)).getLast?) := by
  obtain ⟨it, ha, hi⟩ := iterRevAdvance_spec h j (iterStart w) 0 (iterStart_revInv h)
  rw [Nat.zero_add] at hi
  refine ⟨it, ha, iterRevCollect_spec h _ it _ hi (by omega), ?_, ?_, iterRevLast_spec h hi⟩
  · simp [iterSizeHint, hi.2.1]
  · simp [iterCount, hi.2.1]

/-- an empty window never yields an element -/
theorem C01_empty :
    push (empty : Window α) = (fun _ => .error .emptyWindow) ∧
    (∀ k, get P (empty : Window α) k = .ok none) ∧
    (∀ k, idx P (empty : Window α) k = .error .indexOOB) ∧
    iterNext (empty : Window α) (iterStart (empty : Window α)) = .ok none ∧
    iterRevNext (empty : Window α) (iterStart (empty : Window α)) = .ok none ∧
    iterLast (empty : Window α) (iterStart (empty : Window α)) = .ok none ∧
    iterRevLast (empty : Window α) (iterStart (empty : Window α)) = .ok none ∧
    newest (empty : Window α) = .error .indexOOB ∧
    oldest (empty : Window α) = .error .indexOOB :=
  empty_observers

/-- rebuilt from exported buffer + oldest-index, directly or through serialization: the
    very same window (hence the same sequence and the same future) -/
theorem C01_rebuild {w : Window α} (h : Inv P w) (hP : 1 ≤ P) :
    fromParts P (asSlice w) w.index = .ok w ∧ deserialize P (serialize w) = .ok (.ok w) :=
  ⟨fromParts_asSlice h hP, deserialize_serialize h hP⟩

/-- malformed serialized data is rejected, everything accepted is a consistent window -/
theorem C01_deserialize (buf : List α) (index : Nat) (hP : 1 ≤ P) :
    (∃ w, deserialize P (buf, index) = .ok (.ok w) ∧ Inv P w ∧
        toList w = buf.drop index ++ buf.take index) ∨
    ((∃ e, deserialize P (buf, index) = .error e) ∧
        (buf.length > P - 1 ∨ (buf.length ≤ index ∧ ¬ (buf = [] ∧ index = 0)))) :=
  deserialize_accepts buf index hP

/-! Non-vacuity: a concrete rotated window meets the hypotheses. -/
example : Inv 255 ({ buf := [4, 5, 3], index := 2, size := 3, s_1 := 2 } : Window Nat) ∧
    toList ({ buf := [4, 5, 3], index := 2, size := 3, s_1 := 2 } : Window Nat) = [3, 4, 5] := by
  refine ⟨⟨rfl, rfl, Or.inl (by decide), by decide⟩, rfl⟩

example : (Window.new 255 3 1 >>= fun w => pushAll w [2, 3, 4, 5]).map (fun r => (r.1, toList r.2))
    = .ok ([1, 1, 1, 2], [3, 4, 5]) := by rfl

end Yata.C01

#print axioms Yata.C01.C01_fifo
#print axioms Yata.C01.C01_push
#print axioms Yata.C01.C01_new
#print axioms Yata.C01.C01_newest_oldest
#print axioms Yata.C01.C01_get_index
#print axioms Yata.C01.C01_iter
#print axioms Yata.C01.C01_iter_rev
#print axioms Yata.C01.C01_empty
#print axioms Yata.C01.C01_rebuild
#print axioms Yata.C01.C01_deserialize
