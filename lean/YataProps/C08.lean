/-
  C08 — The construction value acts as an infinite constant prehistory.

  The machines are proved equal to from-scratch specs over the history `replicate n v ++ inputs`
  (C02, C03, C04); the theorems here are about those specs, for every length, value and stream:
    * prefix invariance: extra leading copies of the construction value leave the window — hence
      every sliding-window spec — unchanged (`C08_window_prefix`, instances for SMA/WMA/Integral);
      the exponential recurrences likewise (`C08_ema_prefix`);
    * constant input gives the constant output: mean-type specs return `v`, the windowed sum `n·v`,
      EMA/DMA/TMA return `v`, DEMA/TEMA reproduce the constant exactly, Highest/Lowest return the
      (bit pattern of the) value itself, crossing detectors stay silent.
  Statements combine with `C02_*`/`C03_*`/`C04_*` (model output = spec) by rewriting.
    * every moving-average kind reproduces a constant exactly (`C08_all_kinds_constant`: SWMA, TRIMA, SMM, Vidya, Conv
      with non-negative weights from their hull theorems, HMA and LinReg from affine equivariance with a = 0), and the
      remaining window specs are prefix-invariant (`C08_window_specs_prefix`).
  Indicators are covered by the correspondence
  run (`indapi --which constant`, method suites with leading repetitions): constant input and prefix
  invariance checked on the real code for every indicator and several configurations.
-/
import YataProofs.Constant
import YataProofs.ConstantAll
import YataProofs.Cross
namespace Yata.C08
open Yata
variable {α : Type} {K : Type} [Field K] [LinearOrder K] [IsStrictOrderedRing K]

theorem C08_window_prefix (n j : Nat) (v : α) (xs : List α) :
    lastN n (history n v (List.replicate j v ++ xs)) = lastN n (history n v xs) := win_prefix_invariant n j v xs

theorem C08_window_constant (n k : Nat) (v : α) :
    lastN n (history n v (List.replicate k v)) = List.replicate n v := win_constant n k v

theorem C08_specs_prefix (n j : Nat) (v : K) (xs : List K) :
    Spec.sma n v (List.replicate j v ++ xs) = Spec.sma n v xs ∧
    Spec.wma n v (List.replicate j v ++ xs) = Spec.wma n v xs ∧
    Spec.integral n v (List.replicate j v ++ xs) = Spec.integral n v xs :=
  ⟨sma_prefix n j v xs, wma_prefix n j v xs, integral_prefix n j v xs⟩

theorem C08_specs_constant (n k : Nat) (hn : 0 < n) (v : K) :
    Spec.sma n v (List.replicate k v) = v ∧ Spec.wma n v (List.replicate k v) = v ∧
    Spec.integral n v (List.replicate k v) = (n : K) * v :=
  ⟨sma_constant n k hn v, wma_constant n k hn v, integral_constant n k v⟩

theorem C08_ema_prefix (a v : K) (j : Nat) (xs : List K) :
    Spec.emaRec a v (List.replicate j v ++ xs) = Spec.emaRec a v xs := emaRec_prefix a v j xs

theorem C08_ema_family_constant (a v : K) (k : Nat) :
    e1 a v (List.replicate k v) = v ∧ e2 a v (List.replicate k v) = v ∧ e3 a v (List.replicate k v) = v ∧
    2 * e1 a v (List.replicate k v) - e2 a v (List.replicate k v) = v ∧
    3 * (e1 a v (List.replicate k v) - e2 a v (List.replicate k v)) + e3 a v (List.replicate k v) = v :=
  ⟨e1_constant a v k, e2_constant a v k, e3_constant a v k, (dema_tema_constant a v k).1, (dema_tema_constant a v k).2⟩

theorem C08_selection_constant {β : Type} [FloatLike β K] {n : Nat} {v m : β} :
    (IsMaxOf m (List.replicate n v) → m = v) ∧ (IsMinOf m (List.replicate n v) → m = v) :=
  ⟨isMaxOf_replicate, isMinOf_replicate⟩

/-- constant input reproduces the constant exactly for every remaining moving-average kind -/
theorem C08_all_kinds_constant [DecidableEq K] (n k : Nat) (v : K) :
    (2 ≤ n → Spec.swma n v (List.replicate k v) = v) ∧
    (0 < n → Spec.trima n v (List.replicate k v) = v) ∧
    (0 < n → Spec.smm n v (List.replicate k v) = v) ∧
    (0 < n → Spec.vidya n v (List.replicate k v) = v) ∧
    (0 < n / 2 → 0 < Nat.sqrt n → Spec.hma n v (List.replicate k v) = v) ∧
    (0 < n → Spec.linreg n v (List.replicate k v) = v) ∧
    (∀ ws : List K, (∀ w ∈ ws, 0 ≤ w) → 0 < ws.sum → Spec.conv ws v (List.replicate k v) = v) :=
  ⟨(constants_hull_kinds n k v).1, (constants_hull_kinds n k v).2.1, (constants_hull_kinds n k v).2.2.1,
   (constants_hull_kinds n k v).2.2.2, fun h2 hs => hma_constant n h2 hs v k, fun h => linreg_constant n h v k,
   fun ws hw hs => conv_constant ws hw hs v k⟩

/-- the remaining sliding-window specs see only the window, hence ignore extra leading copies of the construction value -/
theorem C08_window_specs_prefix (n j : Nat) (hn : 2 ≤ n) (v : K) (xs : List K) (ws : List K) :
    Spec.swma n v (List.replicate j v ++ xs) = Spec.swma n v xs ∧
    Spec.linreg n v (List.replicate j v ++ xs) = Spec.linreg n v xs ∧
    Spec.smm n v (List.replicate j v ++ xs) = Spec.smm n v xs ∧
    Spec.conv ws v (List.replicate j v ++ xs) = Spec.conv ws v xs := by
  refine ⟨?_, ?_, ?_, ?_⟩
  · unfold Spec.swma; rw [if_neg (by omega), if_neg (by omega)]; unfold Spec.win; rw [win_prefix_invariant]
  · unfold Spec.linreg Spec.win; rw [win_prefix_invariant]
  · unfold Spec.smm Spec.win; rw [win_prefix_invariant]
  · unfold Spec.conv Spec.win; rw [win_prefix_invariant]

/-- a constant pair never crosses: with a constant difference `d` neither rule can hold -/
theorem C08_cross_silent (d : K) : crossAboveRule d d = false ∧ crossUnderRule d d = false := by
  constructor
  · simp only [crossAboveRule, Bool.and_eq_false_iff, decide_eq_false_iff_not, not_lt, not_le]
    rcases le_or_gt 0 d with h | h
    · exact Or.inl h
    · exact Or.inr h
  · simp only [crossUnderRule, Bool.and_eq_false_iff, decide_eq_false_iff_not, not_lt, not_le]
    rcases le_or_gt d 0 with h | h
    · exact Or.inl h
    · exact Or.inr h

/-! non-vacuity -/
example : lastN 3 (history 3 (7 : Nat) (List.replicate 2 7 ++ [1, 2])) = [7, 1, 2] := by decide

end Yata.C08

#print axioms Yata.C08.C08_window_prefix
#print axioms Yata.C08.C08_window_constant
#print axioms Yata.C08.C08_specs_prefix
#print axioms Yata.C08.C08_specs_constant
#print axioms Yata.C08.C08_ema_prefix
#print axioms Yata.C08.C08_ema_family_constant
#print axioms Yata.C08.C08_selection_constant
#print axioms Yata.C08.C08_cross_silent
#print axioms Yata.C08.C08_all_kinds_constant
#print axioms Yata.C08.C08_window_specs_prefix
