/-
  C03 — Recursive methods follow their documented recurrences.

  In every linear ordered field, for every length accepted by the constructor, every
  construction value and every stream:
    * EMA is the recurrence `e ← (x − e)·α + e` with `α = 2/(n+1)`;
    * RMA is the same recurrence with `α = 1/n`; WSMA(n) is an EMA with `α = 1/n` exactly;
    * DMA / TMA are EMA of EMA (of EMA); DEMA = 2·EMA − EMA(EMA);
      TEMA = 3·(EMA − EMA(EMA)) + EMA(EMA(EMA));
    * the windowless Integral is the cumulative sum;
    * TR returns the true range against the previous close; HeikinAshi's open follows
      `open' = (open + ohlc4)/2`.
    * TSI is the quotient of the doubly smoothed changes and doubly smoothed absolute changes (`C03_tsi`).
    * Vidya follows its adaptive recurrence (`C03_vidya`); the windowless ADI is the cumulative sum (`C03_adi0`).
  Every C03 method has its theorem; independently the correspondence run compares Rust with the exact model and the model
  with the from-scratch spec of `YataModel/Spec.lean` on every step.
-/
import YataProofs.Numeric.EMA
import YataProofs.Numeric.Simple
import YataProofs.Numeric.TSI
import YataProofs.Numeric.Vidya
import YataProofs.Numeric.ADI0
import YataModel.Methods.Candles
namespace Yata.C03
open Yata
variable {K : Type} [Field K] [LinearOrder K] [IsStrictOrderedRing K]

/-- constructor constants -/
theorem C03_constants {P n : Nat} (v : K) (hn0 : 0 < n) :
    (n ≤ P - 1 → EMA.new P n v = .ok { alpha := ((2 : Nat) : K) / ((n + 1 : Nat) : K), value := v }) ∧
    (RMA.new P n v = .ok { alpha := 1 / (n : K), alpha_rev := 1 - 1 / (n : K), prev_value := v }) ∧
    (n ≤ P / 2 → WSMA.new P n v = .ok { ema := { alpha := 1 / (n : K), value := v } }) :=
  ⟨EMA.new_ok v hn0, RMA.new_ok v hn0, WSMA.new_ok v hn0⟩

/-- EMA (and therefore WSMA): every output is the recurrence applied to the stream so far -/
theorem C03_ema (a v : K) (xs : List K) :
    ∃ outs, runM (liftNext EMA.next) { alpha := a, value := v } xs =
        .ok (outs, { alpha := a, value := Spec.emaRec a v xs }) ∧ outs.length = xs.length ∧
      ∀ i (hi : i < outs.length), outs[i] = Spec.emaRec a v (xs.take (i + 1)) :=
  EMA.run_spec a v xs

/-- RMA's two-constant update is that same recurrence -/
theorem C03_rma_step (s : RMA K) (x : K) (h : s.alpha_rev = 1 - s.alpha) :
    (s.next x).1 = (x - s.prev_value) * s.alpha + s.prev_value ∧
    (s.next x).2 = { s with prev_value := (s.next x).1 } :=
  ⟨RMA.next_eq s x h, rfl⟩

theorem C03_dma (a v : K) (xs : List K) :
    ∃ outs s', runM (liftNext DMA.next) { ema := ⟨a, v⟩, dma := ⟨a, v⟩ } xs = .ok (outs, s') ∧
      outs.length = xs.length ∧ ∀ i (hi : i < outs.length), outs[i] = e2 a v (xs.take (i + 1)) :=
  DMA.run_spec a v xs

theorem C03_tma (a v : K) (xs : List K) :
    ∃ outs s', runM (liftNext TMA.next) { dma := { ema := ⟨a, v⟩, dma := ⟨a, v⟩ }, tma := ⟨a, v⟩ } xs = .ok (outs, s') ∧
      outs.length = xs.length ∧ ∀ i (hi : i < outs.length), outs[i] = e3 a v (xs.take (i + 1)) :=
  TMA.run_spec a v xs

theorem C03_dema (a v : K) (xs : List K) :
    ∃ outs s', runM (liftNext DEMA.next) { ema := ⟨a, v⟩, dma := ⟨a, v⟩ } xs = .ok (outs, s') ∧
      outs.length = xs.length ∧
      ∀ i (hi : i < outs.length), outs[i] = 2 * e1 a v (xs.take (i + 1)) - e2 a v (xs.take (i + 1)) :=
  DEMA.run_spec a v xs

theorem C03_tema (a v : K) (xs : List K) :
    ∃ outs s', runM (liftNext TEMA.next) { ema := ⟨a, v⟩, dma := ⟨a, v⟩, tma := ⟨a, v⟩ } xs = .ok (outs, s') ∧
      outs.length = xs.length ∧
      ∀ i (hi : i < outs.length),
        outs[i] = 3 * (e1 a v (xs.take (i + 1)) - e2 a v (xs.take (i + 1))) + e3 a v (xs.take (i + 1)) :=
  TEMA.run_spec a v xs

/-- TSI: EMA_short(EMA_long(change)) / EMA_short(EMA_long(|change|)), all seeded with 0, and `0` exactly when the
    denominator is not positive (no absolute threshold) — for every stream and position -/
theorem C03_tsi {P short long : Nat} (v : K) (hs0 : 0 < short) (hs : short ≤ P - 1) (hl0 : 0 < long) (hl : long ≤ P - 1)
    (xs : List K) :
    ∃ s0 outs s', TSI.new P short long v = .ok s0 ∧ runM (liftNext TSI.next) s0 xs = .ok (outs, s') ∧
      outs.length = xs.length ∧ ∀ i (hi : i < outs.length), outs[i] = Spec.tsi short long v (xs.take (i + 1)) :=
  TSI.spec v hs0 hs hl0 hl xs

/-- Vidya: the exponential average with smoothing 2/(n+1)·|CMO of the last n changes|, the input itself when there was
    no movement in the window — for every stream and position -/
theorem C03_vidya {P n : Nat} (v : K) (hn0 : 0 < n) (hn : n ≤ P - 1) (xs : List K) :
    ∃ s0 outs s', Vidya.new P n v = .ok s0 ∧ runM Vidya.next s0 xs = .ok (outs, s') ∧
      outs.length = xs.length ∧ ∀ i (hi : i < outs.length), outs[i] = Spec.vidya n v (xs.take (i + 1)) :=
  Vidya.spec v hn0 hn xs

/-- windowless ADI: the cumulative sum of CLV·volume -/
theorem C03_adi0 {P : Nat} (hP : 0 < P) (c0 : Candle K) (cs : List (Candle K)) :
    ∃ s0 outs s', ADI.new P 0 c0 = .ok s0 ∧ runM ADI.next s0 cs = .ok (outs, s') ∧
      outs.length = cs.length ∧
      ∀ i (hi : i < outs.length), outs[i] = ((cs.take (i + 1)).map fun c => c.clv * c.volume).sum :=
  ADI.spec0 hP c0 cs

/-- windowless Integral: the cumulative sum of everything fed -/
theorem C03_integral0 {P : Nat} (hP : 0 < P) (v : K) (xs : List K) :
    ∃ s0 outs s', Integral.new P 0 v = .ok s0 ∧ runM Integral.next s0 xs = .ok (outs, s') ∧
      outs.length = xs.length ∧ ∀ i (hi : i < outs.length), outs[i] = Spec.integral0 (xs.take (i + 1)) :=
  Integral.spec0 hP v xs

/-- TR: single-subtraction true range against the previous close, which is then replaced -/
theorem C03_tr (s : TR K) (c : Candle K) :
    (s.next c).1 = smax c.high s.prev_close - smin c.low s.prev_close ∧ (s.next c).2.prev_close = c.close :=
  ⟨rfl, rfl⟩

/-- HeikinAshi recursion -/
theorem C03_heikin_ashi (s : HeikinAshi K) (c : Candle K) :
    (s.next c).1.open_ = s.next_open ∧ (s.next c).1.close = c.ohlc4 ∧
    (s.next c).2.next_open = (s.next_open + c.ohlc4) * (1 / ((2 : Nat) : K)) ∧
    (s.next c).1.high = smax c.high s.next_open ∧ (s.next c).1.low = smin c.low s.next_open ∧
    (HeikinAshi.new c).next_open = c.ohlc4 :=
  ⟨rfl, rfl, rfl, rfl, rfl, rfl⟩

/-! non-vacuity -/
example : Spec.emaRec (1 / 2 : ℚ) 0 [4, 4] = 3 := by norm_num [Spec.emaRec]

end Yata.C03

#print axioms Yata.C03.C03_constants
#print axioms Yata.C03.C03_ema
#print axioms Yata.C03.C03_rma_step
#print axioms Yata.C03.C03_dma
#print axioms Yata.C03.C03_tma
#print axioms Yata.C03.C03_dema
#print axioms Yata.C03.C03_tema
#print axioms Yata.C03.C03_integral0
#print axioms Yata.C03.C03_tr
#print axioms Yata.C03.C03_heikin_ashi
#print axioms Yata.C03.C03_tsi
#print axioms Yata.C03.C03_vidya
#print axioms Yata.C03.C03_adi0
