#!/usr/bin/env python3
"""Seeded changes (/verif/seeded/<id>/{patch.diff, demo.rs, meta.json}).

  seeded.py import  <Cxx> <A|B> <srcdir>     copy a sub-agent's deliverable into /verif/seeded/<Cxx>-<a|b>/
  seeded.py confirm <seeded-dir>             scratch worktree (outside /repo and /verif): pristine demo passes; with the
                                             patch the whole test suite passes and the demo fails. Recorded in meta.json.
  seeded.py detect  <seeded-dir> [Cyy ...]   apply the patch to /repo, run ./check for the property (and the extra ones),
                                             undo the patch; the outcome is recorded in meta.json["detection"].
  seeded.py table                            markdown table of all seeded changes and which checks catch them
"""
import json, os, re, shutil, subprocess, sys, time

V = "/verif"
SEEDED = os.path.join(V, "seeded")
REPO = "/repo"
ENV = dict(os.environ, CARGO_NET_OFFLINE="true")


def sh(cmd, cwd=None, timeout=3600, env=None):
    t0 = time.time()
    p = subprocess.run(cmd, cwd=cwd, env=env or ENV, stdout=subprocess.PIPE, stderr=subprocess.STDOUT, text=True,
                       timeout=timeout, shell=isinstance(cmd, str))
    return p.returncode, p.stdout, time.time() - t0


def load(d):
    return json.load(open(os.path.join(d, "meta.json")))


def save(d, m):
    json.dump(m, open(os.path.join(d, "meta.json"), "w"), indent=1, sort_keys=True)


def do_import(prop, letter, src, as_letter=None):
    d = os.path.join(SEEDED, f"{prop}-{(as_letter or letter).lower()}")
    os.makedirs(d, exist_ok=True)
    shutil.copy(os.path.join(src, f"{letter}.patch.diff"), os.path.join(d, "patch.diff"))
    shutil.copy(os.path.join(src, f"{letter}.demo.rs"), os.path.join(d, "demo.rs"))
    try:
        m = json.load(open(os.path.join(src, f"{letter}.meta.json")))
    except Exception as e:  # noqa
        m = {"property": prop, "mutation": letter, "summary": f"(meta.json unreadable: {e})"}
    m["property"] = prop
    m["source"] = "fresh sub-agent given only the property text and a scratch worktree"
    save(d, m)
    print(d)


def confirm(d):
    d = os.path.abspath(d)
    m = load(d)
    name = os.path.basename(d)
    wt = f"/tmp/seedchk/{name}"
    tgt = f"/tmp/seedchk/{name}.target"
    sh(["git", "-C", REPO, "worktree", "remove", "--force", wt])
    shutil.rmtree(wt, ignore_errors=True)
    os.makedirs("/tmp/seedchk", exist_ok=True)
    rc, out, _ = sh(["git", "-C", REPO, "worktree", "add", "--detach", wt, "HEAD"])
    res = {"base_commit": sh(["git", "-C", REPO, "rev-parse", "HEAD"])[1].strip()}
    env = dict(ENV, CARGO_TARGET_DIR=tgt)
    try:
        os.makedirs(os.path.join(wt, "examples"), exist_ok=True)
        shutil.copy(os.path.join(d, "demo.rs"), os.path.join(wt, "examples", "seeded_demo.rs"))
        feats = m.get("demo_features")
        run_demo = ["cargo", "run", "--offline", "--example", "seeded_demo"] + (["--features", feats] if feats else [])
        rc, out, w = sh(run_demo, cwd=wt, env=env)
        res["pristine_demo_rc"] = rc
        res["pristine_demo_tail"] = out[-600:]
        rc, out, _ = sh(["git", "apply", os.path.join(d, "patch.diff")], cwd=wt)
        res["patch_applies"] = rc == 0
        if rc != 0:
            res["patch_error"] = out[-600:]
        else:
            rc, out, w = sh(run_demo, cwd=wt, env=env)
            res["mutated_demo_rc"] = rc
            res["mutated_demo_tail"] = out[-1200:]
            os.remove(os.path.join(wt, "examples", "seeded_demo.rs"))
            rc, out, w = sh(["cargo", "test", "--workspace", "--no-fail-fast", "--offline"], cwd=wt, env=env)
            res["tests_rc"] = rc
            passed = sum(int(x) for x in re.findall(r"test result: ok\. (\d+) passed", out))
            failed = sum(int(x) for x in re.findall(r"(\d+) failed", out))
            res["tests_passed"], res["tests_failed"], res["tests_wall_s"] = passed, failed, round(w, 1)
            if rc != 0:
                res["tests_tail"] = out[-1500:]
            res["diff_stat"] = sh(["git", "diff", "--stat"], cwd=wt)[1].strip().splitlines()[-1:] if True else []
    finally:
        sh(["git", "-C", REPO, "worktree", "remove", "--force", wt])
        shutil.rmtree(wt, ignore_errors=True)
        shutil.rmtree(tgt, ignore_errors=True)
    res["confirmed"] = bool(res.get("pristine_demo_rc") == 0 and res.get("patch_applies") and res.get("tests_rc") == 0
                            and res.get("mutated_demo_rc", 0) != 0)
    m["confirmation"] = res
    save(d, m)
    with open(os.path.join(d, "demonstration.txt"), "w") as f:
        f.write("# pristine tree: cargo run --offline --example seeded_demo (demo.rs copied to examples/seeded_demo.rs)\n")
        f.write(f"rc={res.get('pristine_demo_rc')}\n{res.get('pristine_demo_tail', '')}\n")
        f.write("# with patch.diff applied\n")
        f.write(f"rc={res.get('mutated_demo_rc')}\n{res.get('mutated_demo_tail', '')}\n")
        f.write(f"# cargo test --workspace --no-fail-fast --offline with the patch: rc={res.get('tests_rc')} "
                f"passed={res.get('tests_passed')} failed={res.get('tests_failed')}\n")
    print(name, "confirmed" if res["confirmed"] else "NOT CONFIRMED",
          {k: res.get(k) for k in ("pristine_demo_rc", "patch_applies", "mutated_demo_rc", "tests_rc", "tests_passed")})
    return 0 if res["confirmed"] else 1


def detect(d, extra):
    d = os.path.abspath(d)
    m = load(d)
    prop = m["property"]
    st = sh(["git", "-C", REPO, "status", "--porcelain", "--untracked-files=no"])[1].strip()
    if st:
        print("refusing: /repo has local changes:\n" + st)
        return 2
    rc, out, _ = sh(["git", "-C", REPO, "apply", os.path.join(d, "patch.diff")])
    if rc != 0:
        print("patch does not apply to /repo:", out)
        return 2
    det = m.get("detection", {})
    try:
        for p in [prop] + list(extra):
            tier = os.environ.get("SEEDED_TIER", "quick")
            rc, out, w = sh([os.path.join(V, "check"), p, "--tier", tier], cwd=V, timeout=4 * 3600,
                            env=dict(ENV, VERIF_EVIDENCE_DIR=os.path.join(V, "work", "seeded-evidence")))
            viol = [l for l in out.splitlines() if l.startswith("VIOLATION")]
            sigs = []
            for l in viol:
                mm = re.search(r"replay=(\S+)", l)
                if mm and os.path.exists(mm.group(1)):
                    s = re.search(r"^# signature (\S+)", open(mm.group(1)).read(), flags=re.M)
                    sigs.append(s.group(1) if s else os.path.basename(mm.group(1)))
            det[p] = {"tier": tier, "rc": rc, "violations": len(viol), "signatures": sorted(set(sigs))[:8],
                      "no_failing_input": any("no-failing-input-found" in l for l in viol), "wall_s": round(w, 1),
                      "caught": rc == 1 and bool(viol)}
            print(os.path.basename(d), p, "CAUGHT" if det[p]["caught"] else "missed", det[p]["signatures"][:3], f"{w:.0f}s")
    finally:
        sh(["git", "-C", REPO, "checkout", "--", "."])
    m["detection"] = det
    save(d, m)
    return 0


def table():
    rows = []
    for name in sorted(os.listdir(SEEDED)):
        d = os.path.join(SEEDED, name)
        if not os.path.exists(os.path.join(d, "meta.json")):
            continue
        m = load(d)
        conf = m.get("confirmation", {}).get("confirmed")
        det = m.get("detection", {})
        caught = [f"{p}" + ("" if not v.get("no_failing_input") else " (proof only)") for p, v in det.items() if v.get("caught")]
        missed = [p for p, v in det.items() if not v.get("caught")]
        rows.append(f"| {name} | {m.get('summary', '')[:150]} | {'yes' if conf else 'no'} | {', '.join(caught) or '-'} | {', '.join(missed) or '-'} |")
    print("| seeded change | what it does | confirmed | caught by | run but missed |\n|---|---|---|---|---|")
    print("\n".join(rows))


if __name__ == "__main__":
    a = sys.argv[1:]
    if not a:
        print(__doc__); sys.exit(2)
    if a[0] == "import":
        do_import(a[1], a[2], a[3], a[4] if len(a) > 4 else None)
    elif a[0] == "confirm":
        sys.exit(confirm(a[1]))
    elif a[0] == "detect":
        sys.exit(detect(a[1], a[2:]))
    elif a[0] == "table":
        table()
