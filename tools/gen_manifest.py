#!/usr/bin/env python3
"""Regenerates /verif/MANIFEST.json from the table below (kept next to the checks it describes)."""
import json, os
V = os.path.dirname(os.path.dirname(os.path.abspath(__file__)))
props = [json.loads(l)["id"] for l in open(os.path.join(V, "properties.jsonl"))]

COMMON_NOTE = ("Trusted: Lean 4.33 kernel, axioms propext/Classical.choice/Quot.sound (audited per theorem each run), the "
               "correspondence run (Rust harness linked against /repo + Lean driver) that ties the hand-written model to the "
               "code by differential execution, serde/serde_json as state reader. ")
NUM_NOTE = ("Floating point is modelled, not verified: theorems are about exact arithmetic in any linear ordered field; the "
            "compiled f64 code is compared with the exact model/spec under the rounding allowance of DESIGN.md §3.2. ")

CLAIMS = {
 "C01": dict(cat="proof", tech="Lean 4 refinement proof (ring buffer -> FIFO list) + model/implementation differential replay",
   text="Unbounded Lean theorems (every capacity, ring phase, history, element type, index and iterator split) about a "
        "line-for-line model of src/core/window.rs, refined to the abstract FIFO lastN n (replicate n v ++ xs); tied to the code "
        "by an exact differential run over all capacities (every observable and the internal buf/index after every mutation).",
   note=COMMON_NOTE + "Modelled not verified: Box<[T]> as List, PeriodType as Nat with explicit maximum, debug-profile panics.",
   ref="DESIGN.md §5 C01"),
 "C02": dict(cat="proof", tech="Lean 4 invariant proofs (incremental machine = from-scratch formula) + two-layer differential replay under a rounding allowance",
   text="For every C02 method - SMA, WMA, SWMA, TRIMA, HMA, LinReg, Conv, VWMA, Integral, Derivative, Momentum, RateOfChange, Past, StDev (variance under the root), MeanAbsDev, MedianAbsDev, CCI, LinearVolatility, windowed ADI: theorems for every length, construction value, stream "
        "and position that the model's output equals the documented formula on the last n values (induction over the stream via a "
        "state invariant). All 19 methods: model and from-scratch spec are executed in exact rational arithmetic on every generated "
        "step and must agree exactly; the Rust outputs and serialized accumulators must lie within the allowance of the exact values, "
        "and each single Rust update must reproduce one model step from Rust's own state (L-step).",
   note=COMMON_NOTE + NUM_NOTE + "PARTIAL only with respect to floats: every method has its model=spec theorem (SWMA for length >= 2; "
        "MedianAbsDev for the total order of the representation).",
   ref="DESIGN.md §5 C02, §3"),
 "C03": dict(cat="proof", tech="Lean 4 proofs of recurrences/constants/compositions + per-step (L-step) differential replay",
   text="Theorems: EMA is the recurrence with alpha=2/(n+1); RMA and WSMA use exactly 1/n; DMA/TMA/DEMA/TEMA are the documented "
        "compositions; TSI is the quotient of doubly smoothed changes / absolute changes with an exact positivity guard; Vidya follows its adaptive recurrence (up/down sums = window sums of the positive/negative parts of the changes); the windowless Integral and ADI are cumulative sums; TR and HeikinAshi step equations. Every Rust update of every "
        "recursive method is checked against one exact model step from Rust's own serialized state, and whole runs against the "
        "exact recurrence under the allowance.",
   note=COMMON_NOTE + NUM_NOTE + "PARTIAL only with respect to floats: every C03 method has its theorem. "
        "Known finding: Vidya residue amplification (KNOWN_FINDINGS.txt).",
   ref="DESIGN.md §5 C03"),
 "C04": dict(cat="proof", tech="Lean 4 invariant proof over an abstract float order (bit-equality vs numeric order) + exact differential replay",
   text="Theorems for Highest and Lowest over every stream, length and position, for any type of bit patterns whose bit-equality is "
        "finer than numeric equality (signed zeros, ties): the output is an element of the last n values and numerically extremal, so "
        "the bit-equality rescan trigger is sound; HighestIndex / LowestIndex return the age of the NEWEST extremal element (an element "
        "numerically extremal with everything newer strictly worse - unique), on the fast path and in the rescan. All selection methods (incl. delta, arg-extrema, SMM, median in MedianAbsDev) are "
        "compared exactly with the model and with from-scratch selections on tie-rich streams.",
   note=COMMON_NOTE + "SMM: the sorted slice is the ascending sort of the window after every stream (binary searches, in-place shift), for the total order of the representation. HighestLowestDelta: highest − lowest of the same selections (theorem). f64::max/min tie behaviour on ±0 "
        "is hardware-defined: outputs compared numerically as the property allows.",
   ref="DESIGN.md §5 C04"),
 "C14": dict(cat="proof", tech="Lean 4 proofs (definitional characterisation, antisymmetry) + exact differential replay",
   text="Theorems over whole streams: CrossAbove/CrossUnder fire exactly under their documented condition (construction difference "
        "as step -1), Cross is their signed combination, the two never fire together, swapping the series negates every output. "
        "Upper/LowerReversalSignal, every left,right >= 1, every stream: the remembered pair is the unique newest maximum (minimum) of the "
        "positions covered by the window, on the fast path and after a rescan, and the signal fires iff that position is exactly `right` "
        "steps back; ReversalSignal = lower - upper. The exact model (unbounded positions) is replayed against the code on plateau/tie "
        "streams longer than PeriodType::MAX for all small (left,right) and boundary pairs.",
   note=COMMON_NOTE + "The first input competes with the construction value (constant prehistory at position 0), as in the code.",
   ref="DESIGN.md §5 C14"),

 "C16": dict(cat="proof", tech="Lean 4 proofs over the 513 actions and a bit-level binary64 model (decide +kernel for the finite tables) + exhaustive differential enumeration",
   text="Theorems: every conversion result is well formed, NaN -> None, saturation, sign preservation, ratio in [-1,1], "
        "from(ratio(a)) = a through the real float operations for all 513 actions, negation involutive and ratio-negating, "
        "ratio(a-b) = clamp(ratio a - ratio b), analog/sign = sign of ratio, equality is an equivalence relation; the ordering "
        "is proved consistent with equality except on (Buy 0, Sell 0), where the negation is proved. The Rust code is enumerated "
        "exhaustively (all i8, all actions, all pairs; thorough: all 2^32 f32 patterns with every step of the quantiser validated "
        "by the bit-level model) and f64 at every bisected transition point.",
   note=COMMON_NOTE + "Monotonicity of the f64 conversion is proved on the bit level (every pair of non-NaN patterns in float order: the rounded product is monotone within a binade, "
        "across the 2^60 rounding-shift boundary and across binades) and for the rational model with any monotone rounding; PARTIAL: the f32 conversion's monotonicity is validated by the full 2^32 sweep, not proved. "
        "Known finding: Ord inconsistent with Eq on Buy(0)/Sell(0).",
   ref="DESIGN.md §5 C16"),
 "C18": dict(cat="proof", tech="Lean 4 algebraic proofs in an arbitrary linear ordered field + string-function proofs + differential replay",
   text="Theorems: tp/hl2/ohlc4/volumed price/source formulas, clv formula and range, the single-subtraction true range equals "
        "max(h-l,|h-pc|,|l-pc|) whenever h >= l, validate accepts exactly ordered positive candles with non-negative volume, "
        "Candle + is associative and aggregates to first open/max high/min low/last close/summed volume, Source text round-trips, "
        "'<kind>-<n>' parses to (kind, n) for all 15 kinds and n <= 255 and everything that parses has that form. The Rust code is "
        "compared on 20k-200k valid and malformed candles (NaN/inf/negative/zero) and on mutated/random strings.",
   note=COMMON_NOTE + NUM_NOTE + "validate on non-finite fields is modelled on classified bit patterns (driver), str::parse::<uN> by an "
        "explicit grammar; both are compared, not proved against Rust's std.",
   ref="DESIGN.md §5 C18"),

 "C17": dict(cat="proof", tech="Lean 4 invariant proofs (CollapseTimeframe, HeikinAshi in any ordered field; Renko in Q) + per-step differential replay with state-adaptive boundary inputs",
   text="Theorems: CollapseTimeframe emits exactly at multiples of the period the aggregate (first open, max high, min low, last "
        "close, summed volume) of the last `period` inputs, for every period and stream; HeikinAshi maps valid candles to valid "
        "candles; Renko in exact arithmetic forms >= 1 brick exactly when the boundary is reached, keeps a consistent state, leaves "
        "no pending brick after a rising emission, and its blocks are contiguous, equally sized relative to the base line, one "
        "direction, carrying the consumed volume. The floating-point Renko is driven with prices exactly on and one ulp around the "
        "boundaries taken from its own serialized state; every step is tied to one exact model step and the emitted blocks are "
        "checked against the property.",
   note=COMMON_NOTE + NUM_NOTE + "The aggregate OHLCV view closes where the last brick closes (theorem; the code added the relative gap to the base line: fixed). PARTIAL: 'never panics on a "
        "boundary price' is a floating-point fact shown by the adaptive differential run, not by a theorem.",
   ref="DESIGN.md §5 C17"),

 "C09": dict(cat="proof", tech="Lean 4 proofs of generic runner laws (any state machine) + exhaustive-route Rust-vs-Rust differential run",
   text="Theorems for every state machine: one output per input; feeding xs++ys = feeding xs then ys (hence every chunking, empty "
        "chunks included); new_over on [] and on x::xs; apply = over; the history wrapper returns the inner outputs and get(i) is "
        "the i-th newest; the last-value wrapper is the inner machine after one extra leading initial value with peek = last "
        "output; peek = last produced value per Peekable model. The Rust routes (over, call, apply, new_over, new_apply, into_fn, "
        "new_fn, with_history, with_last_value, clones, peek) are compared bit-for-bit with next-by-next for 45 method types.",
   note=COMMON_NOTE + "PARTIAL: determinism / clone independence of the compiled code are runtime facts about derived Clone on owned "
        "data; they are exercised (clone at random points, original disturbed afterwards), not proved. Indicator-level over/init_fn "
        "are covered by C11's suite. Known finding: Past::peek.",
   ref="DESIGN.md §5 C09"),

 "C08": dict(cat="proof", tech="Lean 4 proofs about the from-scratch specs (prefix invariance, fixed points) composed with the model=spec theorems + constant-input / leading-copies differential run on every method and indicator",
   text="Theorems (every length, value, stream): extra leading copies of the construction value leave the window and hence every "
        "sliding-window spec unchanged; the exponential recurrences likewise; on constant input mean-type specs return v, the "
        "windowed sum n*v, EMA/DMA/TMA v, DEMA/TEMA reproduce the constant exactly, Highest/Lowest return the value itself, "
        "crossings stay silent. The real code: every method type and every indicator (several configurations, flat/ranged/"
        "zero-volume candles) is fed 700-2000 copies of its first input and streams with extra leading copies.",
   note=COMMON_NOTE + NUM_NOTE + "Every method of C02-C04 has its model=spec theorem, so the spec theorems transfer; every moving-average kind reproduces a constant exactly "
        "(hull theorems of C15 with lo = hi = v; HMA / LinReg by affine equivariance with a = 0). PARTIAL: indicators are covered by the run, not by theorems. Known findings: HullMovingAverage pivot noise, TrendStrengthIndex start.",
   ref="DESIGN.md §5 C08"),
 "C10": dict(cat="proof", tech="Lean 4 totality proofs of the constructors over the whole PeriodType domain + exhaustive enumeration of the parameter domain on the real code (debug and release builds)",
   text="Theorems for every maximum P>=2 and EVERY parameter value 0..=P (every pair for two-parameter methods): the constructors of "
        "20 single-length methods, TSI, both reversal detectors and Conv return Ok or Err, never a panic or overflow, and Err on the "
        "documented too-small lengths and on PeriodType::MAX. On the real code all 256 lengths of all 35 methods (pairs for "
        "two-parameter ones) must give the model's Ok/Err/kind, in debug and release builds; every indicator parameter is swept "
        "(all 256 values, all MA kinds, NaN/inf/negative numerics) and accepted instances are driven with valid candles.",
   note=COMMON_NOTE + "Indicator init()/validate() are part of the 36 indicator models and the init result kind (Ok / WrongConfig / method error) is compared for every generated configuration incl. boundary values (class ind-init); PARTIAL: 'accepted instances never panic' "
        "is a theorem for the methods with a full run theorem (C02-C04, C14, C17), for every kind of the configurable moving average (C10_every_ma_kind_never_panics) and for the indicators with a run theorem "
        "(RSI, MACD, ADX with any kinds; Ichimoku, MFI, TrendStrengthIndex, Donchian; CMO, Aroon, Stochastic, Keltner, Bollinger, CMF, SAR, TSI-based, Envelopes); the run drives the whole method suite "
        "(every stream class incl. signed-zero runs) and 20 000-candle indicator streams for panics. Known finding: CoppockCurve on zero volume.",
   ref="DESIGN.md §5 C10"),
 "C11": dict(cat="proof", tech="translator (source -> Lean table, regenerated every run) + decide over the table + Rust-vs-Rust interface differential run",
   text="tools/extract.py regenerates a Lean table of all indicators from the source on every run (public fields, set() arms with the "
        "field each assigns, size(), arities given to IndicatorResult::new, Default). Theorems over that table: every row is in the "
        "translatable shape, the set() keys are exactly the public fields and each arm assigns the field of its own name, size() "
        "equals the result arities and fits the fixed-size result, names are distinct. The running code is checked for name, default "
        "validity and init, every setter with valid/boundary/unparsable texts and unknown names (exact JSON diff), result shape at "
        "every step, and static vs Box<dyn> equivalence.",
   note=COMMON_NOTE + "Trusted: the translator (cross-checked against values the code returns). name()==NAME, the Dyn blanket impls and "
        "default().init() are runtime facts compared Rust-vs-Rust.",
   ref="DESIGN.md §5 C11"),
 "C13": dict(cat="proof", tech="Lean 4 round-trip / rejection proofs for the hand-written serde impls + translator-checked serde surface + snapshot differential run",
   text="Theorems: a reachable Window of any capacity (incl. empty) deserializes from its serialized form to the very same window; "
        "malformed data is rejected and everything accepted is a consistent window; the slice SMM rebuilds is a sorted permutation of "
        "the window; the translator-generated surface table proves Window and SMM are the only hand-written impls and no field is "
        "skipped. Every method type and indicator is snapshotted after each of the first steps (every ring phase), round-tripped "
        "through JSON and compared bit-for-bit with the original on a continuation; adversarial Window JSON.",
   note=COMMON_NOTE + "PARTIAL: derived impls rely on serde_derive and serde_json float round-trip (trusted, exercised). JSON cannot carry "
        "NaN/inf: such states are skipped and counted.",
   ref="DESIGN.md §5 C13"),

 "C19": dict(cat="proof", tech="translator-listed unsafe sites + Lean 4 in-bounds proofs under the window invariant + bit-identical cross-build differential run",
   text="The translator lists every get_unchecked*/ptr::copy outside tests with its index expression on every run; a theorem over that "
        "list shows it contains only the analysed sites. For each site the model's index expression is proved inside the buffer under "
        "the C01 invariant (push/oldest, newest, Index via slice_index, both iterator cursors) and SMM's branch-free ptr::copy arm is "
        "proved equal to the safe copy_within arm with source and destination ranges inside the slice. The unsafe_performance build is "
        "compared bit-for-bit with the default build on identical programs (windows of every capacity, all methods, API routes, "
        "snapshots, all indicators) and replayed through the model.",
   note=COMMON_NOTE + "PARTIAL: memory safety of the compiled artefact is a runtime fact; it rests on the trusted Rust semantics of "
        "get_unchecked/ptr::copy for in-bounds arguments plus the differential run (std's debug precondition checks abort on an "
        "out-of-bounds unchecked access, which the run would surface).",
   ref="DESIGN.md §5 C19"),
 "C20": dict(cat="proof", tech="width-parametric Lean 4 theorems (arbitrary PeriodType maximum, arbitrary ordered field) + bit-identical cross-build differential runs + model replay at wide period / single precision",
   text="All window/method/constructor theorems are stated for an arbitrary maximum P of PeriodType and an arbitrary ordered field, so they "
        "hold for u8..u64 and do not mention float width; explicit corollaries: the invariant, new, get and Index do not depend on P for "
        "capacities the narrow type accepts, HMA's sqrt length always fits. Builds with period_type_u16/u32/u64 (thorough: also with "
        "unsafe_performance) must be bit-identical to the default build on identical programs with parameters <= 254; a u16 build is "
        "replayed through the model at P=65535 with lengths up to 1000 (thorough 5000); the f32 build is replayed at single-precision allowance.",
   note=COMMON_NOTE + NUM_NOTE + "PARTIAL: feature builds are compiled artefacts compared differentially. Cases whose parameters the default "
        "build rejects (e.g. WSMA > 127) are outside 'parameters that fit the default type' and skipped in the cross-build comparison.",
   ref="DESIGN.md §5 C20"),

 "C15": dict(cat="proof", tech="Lean 4 algebraic proofs on the weight-profile specs (affine, superposition, hull) + metamorphic differential run on the real code",
   text="Theorems in every ordered field, for every length, construction value and stream: SMA, WMA and the exponential recurrence "
        "(EMA/RMA/WSMA; DMA, TMA as compositions) commute with affine maps of either sign, satisfy superposition, stay in the hull of "
        "the values given (the smoothing constants are proved to lie in (0,1]), reproduce constants, and WMA's impulse response is the "
        "documented 2(n-age)/(n(n+1)). All 15 MA kinds plus Conv and VWMA are checked on the real code by metamorphic relations "
        "(x vs a*x+b, x,y vs x+y, hull incl. flat/scale-jump regimes, impulse responses) and against their weight-profile specs.",
   note=COMMON_NOTE + NUM_NOTE + "Every kind has its theorems (for the from-scratch specs the machines equal by C02-C04). PARTIAL only with respect to floats. "
        "Vidya used to leave the hull on rounding residue (fixed: 99fe17e clamps |CMO|; C07_vidya_residue_cannot_leave_range holds for any content of its sums); "
        "known finding left: its accuracy on flat windows (residue amplification).",
   ref="DESIGN.md §5 C15"),

 "C05": dict(cat="proof", tech="Lean 4 proofs about hand-written indicator models (composition of realised averages / extremum trackers, invariants lifted over candle lists) + per-step differential replay of every indicator value under the rounding allowance",
   text="All 36 indicators are modelled with init/validate and all 15 MA kinds (TrendStrengthIndex p/sqrt(q) compared on the square, FisherTransform's atanh against a rational approximation). Theorems (exact arithmetic, "
        "every stream): MA instances realise their history function for ever (SMA, EMA), MACD = f1 - f2 and signal line = f3 of its history, "
        "Donchian bounds are extremes of the last n highs/lows from init on, RSI and CMO value formulas behind their guards, MFI's expression "
        "equals pmf/(pmf+nmf), SAR returns the post-flip state; step theorems from invariant states (histories of realised averages, extremum "
        "trackers, window sums) for Stochastic, Keltner, Ichimoku (with its constructor), CMF, MFI (with its constructor), ADX, TrendStrengthIndex, "
        "FisherTransform. Every value the real code returns (every indicator, random valid configurations "
        "via the string setters, 6 candle classes) must lie within the allowance of the exact model's value.",
   note=COMMON_NOTE + NUM_NOTE + "PARTIAL: value theorems exist for MACD, Donchian, Aroon, Bollinger, RSI, CMO, SAR, Stochastic, Keltner, Ichimoku, CMF, MFI, ADX, "
        "TrendStrengthIndex, FisherTransform; the other 21 models are validated by the run only; atanhQ's accuracy (FisherTransform) is trusted, not proved. "
        "Known findings: configurations using the Vidya average (residue amplification, see C03); KeltnerChannel returns [source, upper, lower] where its "
        "documentation lists upper, source, lower (DESIGN 7.1).",
   ref="DESIGN.md §5 C05"),
 "C06": dict(cat="proof", tech="Lean 4 proofs of the signal rules of the indicator models (crossing rule, band touches, counters, SAR flip) + exact differential replay of every signal against the rule applied to the implementation's own values",
   text="The model's signal functions take the returned values as input; the run applies them to the exact rationals of the floats the real code "
        "returned, rounding code-formed thresholds (1 - zone) and candle sources as the code does, so every crossing / touch / zone / flip decision "
        "of the 36 modelled indicators is compared exactly at every step; proportional strengths must hit the quantiser level of the exact argument. "
        "Theorems: MACD signals are the C14 crossing rule on (macd, signal) and (macd, 0); Donchian / PriceChannel / Envelopes rules as case "
        "distinctions; Aroon counters count consecutive in-zone steps and reset; SAR signal fires iff the returned trend changed, in its direction, "
        "for every reachable state.",
   note=COMMON_NOTE + "Rule theorems also for RSI, MFI, CMF, CMO, Keltner, Stochastic (compositions of C14 detectors and C16 subtraction). PARTIAL: the second-tier "
        "indicators, Ichimoku, TSI/SMI, Bollinger rules are validated by the run only. Steps after a non-finite value "
        "and SAR cases after a flip decision within 64 ulp are exempt and counted. Known findings (DESIGN 7.1): the code contradicts the documented "
        "sign of KeltnerChannel #1, RelativeVigorIndex #2, TrendStrengthIndex #1/#2 (reported by a separate documented-rule check on steps that agree "
        "with the model of the code); WoodiesCCI's never-firing signal was fixed.",
   ref="DESIGN.md §5 C06"),
 "C12": dict(cat="proof", tech="Lean 4 range / ordering proofs on the exact models (quotients of non-negative sums, channel containment, SAR side invariant) + strict range test on the implementation's own values at every step",
   text="Theorems (exact arithmetic): RSI, MFI values in [0,1] and (P-N)/(P+N) in [-1,1] for non-negative operands; Chande momentum keeps its sums equal to "
        "window sums of non-negative parts from every invariant state, hence stays in [-1,1]; %K and Aroon in [0,1]; Donchian/price channel "
        "contain the consumed candle in every reachable state; the returned SAR is never on the wrong side of the candle; Bollinger variance, "
        "StDev^2, TR >= 0; CLV in [-1,1]. Run: strict interval/order tests (slack C*eps*k*(hi-lo)) on every returned value of the bounded "
        "indicators incl. non-finite values, volatile->flat->volatile and zero-volume streams; dispersion methods >= 0; CLV/TR on valid candles.",
   note=COMMON_NOTE + NUM_NOTE + "PARTIAL: floats are outside most theorems - exactly where this property bites: MoneyFlowIndex, ChandeMomentumOscillator, "
        "RelativeStrengthIndex, ADX left their ranges (even +-inf) through rounding residue behind exact == 0 guards; all repaired by fix: commits that clamp the "
        "quotient (d1dca32, 91f0f9b, cc844cc, f2150a5; TrendStrengthIndex NaN 415d7fc), and for the clamped quotients the range is a theorem for ALL operands, residue "
        "included (C12_clamped_quotient_range, C12_rsi_run_every_kind, C12_adx_run), while the clamp is proved a no-op on exact operands; documented ranges the formulas do not imply (ChaikinOscillator [-1,1], RelativeVigorIndex [-0.5,0.5], ADX +-DI [0,1]) "
        "are reported as doc-range findings (DESIGN 7.1). Whole-stream theorems from the constructors (no step panics, bound at every step): Aroon, RSI and Stochastic (every pair of non-overshooting kinds), "
        "MFI, CMO, CMF, TSI, Bollinger (variance >= 0), Keltner (every configuration), Donchian, LinearVolatility, MeanAbsDev; "
        "TrendStrengthIndex p^2 <= q (Cauchy-Schwarz), i.e. |value| <= 1 wherever defined. "
        "Theorems also for LinearVolatility / MeanAbsDev >= 0, Keltner and Envelopes ordering, the CMF range (|sum CLV*vol| <= sum vol over the same window) and the TSI range (domination of the double smoothing); smoothed Stochastic / SMI signal-line ranges are run-only.",
   ref="DESIGN.md §5 C12"),
 "C07": dict(cat="proof", tech="Lean 4 proofs of window locality and exponential forgetting (reduction of every history length to a bounded suffix) + late-position differential run on long streams",
   text="Theorems: after n inputs the window - hence every sliding-window spec - equals that of a fresh instance fed the last inputs "
        "only, for every earlier history; the exponential recurrences restart from their own value and forget the start like "
        "(1-alpha)^k; Vidya (after fix 99fe17e) cannot leave the range of its data whatever its running sums hold. The real code runs 70 000 (thorough 2 000 000) steps "
        "per instance through regime changes incl. log-normal burst -> flat episodes; at late positions and at the steps where the window has just gone flat "
        "(dense around 255, 256, 65535, 65536) outputs are compared with a fresh exact model primed with the last window (allowance "
        "at k=t+n; selections, indices, signals exactly) and recursive methods by one exact model step from their serialized state.",
   note=COMMON_NOTE + NUM_NOTE + "PARTIAL: float drift over long streams is measured on the explored lengths, not proved (formal drift bounds under the "
        "standard model of rounding exist for SMA, EMA, WMA). Indicators: 20 000 (thorough 1 000 000) candles per configuration without a panic, late positions against "
        "a fresh instance where the definition has fading memory, the long-window configurations of every indicator on 1040-candle ramps / walks against the exact model "
        "(counters, latches, streak lengths), and the exact power-of-two scale law (the same stream quoted in 2^-60: every value an exact power of the factor, every "
        "signal identical - no model, no tolerance; catches every absolute threshold).",
   ref="DESIGN.md §5 C07"),
}

checks = []
for pid in props:
    if pid not in CLAIMS:
        continue
    c = CLAIMS[pid]
    checks.append({
        "property_id": pid,
        "quick_cmd": f"./check {pid} --tier quick",
        "thorough_cmd": f"./check {pid} --tier thorough",
        "evidence_file": f"/verif/evidence/{pid}.json",
        "replay_cmd_template": f"./check {pid} --replay {{path}}",
        "engine": "lean-proof+correspondence",
        "level_claimed": {"category": c["cat"], "text": c["text"], "design_ref": c["ref"]},
        "level_note": c["note"],
        "technique": c["tech"],
    })

m = {
 "version": 1,
 "setup_cmd": "./setup.sh",
 "hooks": {"guard": "yata_verif",
           "enable": "none needed: the harness reads internal state through the crate's own serde impls and panics through catch_unwind; no source hook exists",
           "baseline_off_cmd": "cd /repo && cargo test --workspace --no-fail-fast --offline",
           "source_commits": [], "add_only": True},
 "engines": [{"name": "lean-proof+correspondence", "path": "/verif/check", "serves_properties": sorted(CLAIMS),
              "kind_free_text": "Lean 4 theorems about a hand-written model (lean/YataModel, lean/YataProofs, lean/YataProps) + "
                                "correspondence run: Rust harness (harness/) executes /repo's working tree, Lean driver "
                                "(lean/Driver.lean, lean/YataDriver) replays the transcript through model and spec"}],
 "checks": checks,
 "not_applicable": [{"property_id": p, "reason": "check not built yet in this round (under construction; see DESIGN.md §9 build order)"}
                    for p in props if p not in CLAIMS],
 "notes": "Run ./setup.sh once; every check rebuilds the harness against /repo's working tree, re-elaborates the Lean property "
          "module and audits axioms. Known findings and repaired defects: KNOWN_FINDINGS.txt.",
}
json.dump(m, open(os.path.join(V, "MANIFEST.json"), "w"), indent=1)
print("claimed:", sorted(CLAIMS))
