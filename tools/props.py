"""Per-property check procedures (DESIGN.md §5)."""
import os, re
from checklib import *  # noqa

TRUSTED_COMMON = [
    "Lean 4.33 kernel (lake build; thorough tier re-checks the property module with leanchecker)",
    "axioms: propext, Classical.choice, Quot.sound only (audited per theorem on every run)",
    "hand-written model lean/YataModel/* tied to /repo by the correspondence run (harness + Lean driver); "
    "the driver executes the model, it proves nothing",
    "harness (Rust, links /repo's working tree) and serde/serde_json report what the real code returned",
]


def sig_default(mm):
    op = mm.get("op", "").split(" ")[0]
    return f"{mm.get('comp', '?')}:{op}"


def need_harness(c, features=(), release=False):
    ok, exe, out, wall = build_harness(features, release)
    if not ok:
        path = c.write_replay("harness-build", ["# the harness does not build against /repo's current tree",
                                                 "# corr:harness-build@/repo"] + ["# " + l for l in out.split("\n")[-40:]])
        c.violations.append(("machinery:build", path, "harness build failed"))
        return None
    return exe


def C01(c):
    c.proofs()
    exe = need_harness(c)
    if exe:
        r = run_suite(exe, "window", c.seed, c.tier, "C01-window")
        c.add_suite(r, sig_window)
    return c.finish(
        level="proof",
        trusted=TRUSTED_COMMON + [
            "modelled: Box<[T]> as List, PeriodType as Nat with explicit maximum P, debug-profile panics as Except",
            "serde_json's own rejection of ill-typed JSON (missing field, wrong type, index not a PeriodType) is trusted",
        ],
        rule="random programs over Window<u32> for every capacity 0..=PeriodType::MAX (new/from_parts/From<Vec>, "
             "3*cap+ pushes with distinct labels, every observer, iterator split points, serde and from_parts "
             "rebuilds, adversarial JSON); every result token and the internal (buf,index) after every mutation "
             "is compared with the Lean model exactly",
    )


def sig_window(mm):
    op = mm.get("op", "").split(" ")[0]
    rust, model = mm.get("rust", ""), mm.get("model", "")
    if op in ("iter", "iterrev"):
        # which observation differs
        def part(s, k):
            m = re.search(rf"\b{k} (.*?)(?: [rhclf] |$)", s + " ")
            return m.group(1) if m else ""
        for k, name in (("r", "items"), ("h", "size_hint"), ("c", "count"), ("l", "last"), ("f", "fused")):
            if part(rust, k) != part(model, k):
                return f"window:{op}:{name}"
    return f"window:{op}"


def replay(prop, path):
    """re-run a replay file: real code through the harness, then the driver"""
    text = open(path).read()
    if "no failing input" in text or "Lean obligations no longer check" in text:
        print(text)
        print(f"[{prop}] this replay names a broken proof obligation / correspondence; rebuild with: "
              f"cd /verif/lean && lake build YataProps.{prop}")
        return 1
    ok, exe, out, _ = build_harness()
    if not ok:
        print(out)
        return 1
    os.makedirs(WORK, exist_ok=True)
    tr = os.path.join(WORK, f"replay-{prop}.tr")
    rc, out, _ = sh([exe, "replay", "--replay", path, "--out", tr])
    if rc != 0:
        print(out)
        return 1
    rc, out, _ = sh(["lake", "build", "driver"], cwd=LEAN)
    res = run_driver(tr)
    for mm in res["mismatches"]:
        print(mm["raw"])
    print(f"[{prop}] replay {path}: {res['summary']}")
    return 1 if res["mismatches"] or res.get("error") else 0


PROPS = {"C01": C01}
