"""Per-property check procedures (DESIGN.md §5)."""
import os, re, json
from checklib import *  # noqa

TRUSTED_COMMON = [
    "Lean 4.33 kernel (lake build; thorough tier re-checks the property module with leanchecker)",
    "axioms: propext, Classical.choice, Quot.sound only (audited per theorem on every run)",
    "hand-written model lean/YataModel/* tied to /repo by the correspondence run (harness + Lean driver); "
    "the driver executes the model, it proves nothing",
    "harness (Rust, links /repo's working tree) and serde/serde_json report what the real code returned",
]


def sig_default(mm):
    op = mm.get("op", "").split(" ")[0]
    return f"{mm.get('comp', '?')}:{op}"


def need_harness(c, features=(), release=False):
    ok, exe, out, wall = build_harness(features, release)
    if not ok:
        path = c.write_replay("harness-build", ["# the harness does not build against /repo's current tree",
                                                 "# corr:harness-build@/repo"] + ["# " + l for l in out.split("\n")[-40:]])
        c.violations.append(("machinery:build", path, "harness build failed"))
        return None
    return exe


def C01(c):
    c.proofs()
    exe = need_harness(c)
    if exe:
        r = run_suite(exe, "window", c.seed, c.tier, "C01-window")
        c.add_suite(r, sig_window)
    return c.finish(
        level="proof",
        trusted=TRUSTED_COMMON + [
            "modelled: Box<[T]> as List, PeriodType as Nat with explicit maximum P, debug-profile panics as Except",
            "serde_json's own rejection of ill-typed JSON (missing field, wrong type, index not a PeriodType) is trusted",
        ],
        rule="random programs over Window<u32> for every capacity 0..=PeriodType::MAX (new/from_parts/From<Vec>, "
             "3*cap+ pushes with distinct labels, every observer, iterator split points, serde and from_parts "
             "rebuilds, adversarial JSON); every result token and the internal (buf,index) after every mutation "
             "is compared with the Lean model exactly",
    )


def sig_window(mm):
    op = mm.get("op", "").split(" ")[0]
    rust, model = mm.get("rust", ""), mm.get("model", "")
    if op in ("iter", "iterrev"):
        # which observation differs
        def part(s, k):
            m = re.search(rf"\b{k} (.*?)(?: [rhclf] |$)", s + " ")
            return m.group(1) if m else ""
        for k, name in (("r", "items"), ("h", "size_hint"), ("c", "count"), ("l", "last"), ("f", "fused")):
            if part(rust, k) != part(model, k):
                return f"window:{op}:{name}"
    return f"window:{op}"


def sig_method(mm):
    """signature of a disagreement in a method/indicator case: <class>:<component>"""
    return f"{mm.get('class', 'semantic')}:{mm.get('sub') or mm.get('comp', '?')}"


METHOD_GROUPS = {
    "C02": "sma,wma,swma,trima,hma,linreg,conv,vwma,integral,derivative,momentum,roc,past,stdev,mad,medad,cci,linvol,adi",
    "C03": "ema,dma,tma,dema,tema,rma,wsma,tsi,vidya,tr,heikin,integral,adi",
    "C04": "highest,lowest,hldelta,hindex,lindex,smm,medad",
    "C14": "cross_above,cross_under,cross,upper_rev,lower_rev,reversal",
    "C15": "sma,wma,swma,trima,hma,linreg,ema,dma,tma,dema,tema,rma,wsma,smm,vidya,vwma,conv",
}

NUMERIC_TRUST = [
    "modelled, not verified: IEEE-754 rounding. Theorems hold in exact arithmetic (any linear ordered field); the Rust "
    "floats are compared with the exact model/spec under the allowance a = 1024*eps*(t+n)*kappa*scale of DESIGN §3.2 "
    "(quotients through an interval enclosure); mul_add(a,b,c) is modelled as a*b+c",
    "two correspondence layers per step: L-prop (output and serialized accumulators vs exact model run from new, and "
    "model vs from-scratch spec exactly) and L-step (one exact model step from the implementation's own serialized "
    "pre-state, tolerance not growing with the stream)",
]


def methods_check(c, rule, trusted_extra, level="proof"):
    c.proofs()
    exe = need_harness(c)
    if exe:
        r = run_suite(exe, "methods", c.seed, c.tier, f"{c.prop}-methods", ["--methods", METHOD_GROUPS[c.prop]])
        c.add_suite(r, sig_method)
        c.coverage["exempt_steps"] = r.get("summary", {}).get("exempt", 0)
        c.coverage["lstep_checks"] = r.get("summary", {}).get("lsteps", 0)
        c.coverage["spec_evaluations"] = r.get("summary", {}).get("spec_evals", 0)
    return c.finish(level=level, trusted=TRUSTED_COMMON + NUMERIC_TRUST + trusted_extra, rule=rule)


def C02(c):
    return methods_check(c,
        rule="per method x length (quick: 18 lengths incl. 1,2,127,128,253,254; thorough: all 1..254) x stream class "
             "(small alphabets, signed zeros, walks, noise at 1e-9..1e9, volatile->flat->volatile, scale jumps, monotone, "
             "spikes, plateaus), 160-1500 steps, construction value = first input / extra leading copies / unrelated "
             "value; every step compared (warm-up included); a case is non-trivial when it has >= 1 step",
        trusted_extra=["proved model=spec: SMA, WMA, Integral, Momentum, Derivative, RateOfChange, Past; the other C02 "
                       "methods are validated model=spec exactly on every generated step (spec_evaluations) but not yet proved"])


def C03(c):
    return methods_check(c,
        rule="as C02 for the recursive methods; (short,long) pairs for TSI; valid candle streams (walk, flat regimes, "
             "plateaus, zero-volume and high==low bars) for TR/HeikinAshi/ADI; state emitted on every step so that the "
             "L-step layer checks every single update",
        trusted_extra=["proved: EMA/RMA/WSMA constants and recurrence, DMA, TMA, DEMA, TEMA compositions, cumulative "
                       "Integral, TR and HeikinAshi step equations; TSI, Vidya, cumulative ADI validated only"])


def C04(c):
    return methods_check(c,
        rule="as C02 for the selection methods; stream classes biased to tiny alphabets and {-0.0,+0.0} so that ties, "
             "equal extrema and every order pattern of a short window occur; outputs compared exactly (numeric "
             "equality, sign of zero free), cached extremum / index / window compared on state lines",
        trusted_extra=["proved: Highest, Lowest (bit-equality rescan soundness, FloatLike abstraction); "
                       "HighestLowestDelta, HighestIndex, LowestIndex, SMM, median of MedianAbsDev validated only",
                       "f64::max/min may return either operand on a numeric tie (+0/-0): outputs are compared numerically"])


def C14(c):
    return methods_check(c,
        rule="pairs of streams with touches (difference exactly 0), constant bases and zero bases for the crossing "
             "detectors; all (left,right) with left+right<=12 (quick: <=5 each) plus boundary pairs for the reversal "
             "detectors on plateau/alphabet/zero streams longer than PeriodType::MAX; Actions compared exactly",
        trusted_extra=["proved: CrossAbove/CrossUnder definitional over whole streams, Cross = up - down, exclusivity, "
                       "antisymmetry under swapping; reversal detectors validated only (model with unbounded positions)"])


def C16(c):
    c.proofs()
    exe = need_harness(c)
    if exe:
        r = run_suite(exe, "action", c.seed, c.tier, "C16-action")
        c.add_suite(r, sig_method)
        st = r.get("stats", {})
        c.coverage["exhaustive"] = True
        c.coverage["explanation"] = (
            "exhaustive: all 256 i8, all 513 actions (unary observers, from(ratio)), all 513x513 pairs (sub, eq, ne, cmp, "
            "partial_cmp); f64: +-4 ulp around (k-0.5)/255 and k/255 for every k, specials (NaN payloads, +-inf, +-0, "
            "subnormals, +-1+-ulp, MAX), bisected exact transition points of the step function, random bit patterns"
            + ("; thorough: every one of the 2^32 f32 bit patterns in-process (sign, monotone non-decreasing strength, NaN->None) "
               "with both sides of every one of the 512 transitions validated by the bit-level Lean model" if c.tier == "thorough" else ""))
        c.coverage["f32_patterns_swept"] = st.get("f32_sweep_patterns", 0)
    return c.finish(
        level="proof",
        trusted=TRUSTED_COMMON + [
            "bit-level float model lean/YataModel/F64.lean (Nat arithmetic: RNE product, round half away, saturating cast, RNE "
            "division) is compared with the hardware on every generated pattern; f32 -> f64 widening is exact (IEEE) and trusted",
            "derived PartialOrd/Ord of the enum modelled as variant order Buy < None < Sell then payload",
        ],
        rule="see explanation; the finite parts are enumerated completely, float conversion at every quantiser step")


def C18(c):
    c.proofs()
    exe = need_harness(c)
    if exe:
        r = run_suite(exe, "candle", c.seed, c.tier, "C18-candle")
        c.add_suite(r, sig_method)
    return c.finish(
        level="proof",
        trusted=TRUSTED_COMMON + NUMERIC_TRUST[:1] + [
            "validate on NaN/inf fields: classified bit patterns in the driver (validateBits), not a field theorem",
            "Rust's integer grammar for PeriodType and str::trim's White_Space set are modelled in YataModel/Text.lean and "
            "compared on generated and mutated strings; candles with |field| beyond 2^±400 are compared on validate only",
        ],
        rule="20k (thorough 200k) candles: valid, out-of-order (open/close outside, high<low), negative/zero/NaN/inf/subnormal "
             "fields, every previous close position; every OHLCV method on Candle, 5-tuple and array (must agree bitwise); "
             "Candle conversions; (a+b)+c vs a+(b+c); Source and MA strings: all names x case/whitespace/suffix mutations, "
             "every kind x every length 0..=256, malformed numerals, random strings over the relevant alphabet")


def C17(c):
    c.proofs()
    exe = need_harness(c)
    if exe:
        r = run_suite(exe, "methods", c.seed, c.tier, "C17-methods", ["--methods", "collapse,heikin"])
        c.add_suite(r, sig_method)
        r2 = run_suite(exe, "renko", c.seed, c.tier, "C17-renko")
        c.add_suite(r2, sig_method)
        c.coverage["renko_emissions"] = r2.get("stats", {}).get("emissions", 0)
    return c.finish(
        level="proof",
        trusted=TRUSTED_COMMON + NUMERIC_TRUST + [
            "Renko: the floating-point chain is tied per step (from the implementation's serialized pre-state one exact model "
            "step must give the same decision, brick count up to a quotient within 64 ulp of an integer, base line, boundaries, "
            "volume); the emitted blocks and the aggregate view are checked against the property on the implementation's own output",
            "batch collapse_timeframe (both modes) is compared Rust-vs-Rust with the streaming method and a from-scratch fold inside the harness",
        ],
        rule="CollapseTimeframe periods {1,2,3,5,7,24,60} and HeikinAshi on valid candle streams (walk, flat regimes, plateaus, "
             "zero-volume, high==low); Renko: brick sizes from machine epsilon to 0.999999 x sources x start prices, 400-1500 adaptive "
             "steps whose prices are chosen from the serialized state: exactly on / one ulp below / above next_block_upper/lower, exact "
             "multiples of the brick, multi-brick jumps, reversals; rejected brick sizes (0, eps/2, 1, >1, negative, NaN, inf)")


def C09(c):
    c.proofs()
    exe = need_harness(c)
    if exe:
        r = run_suite(exe, "api", c.seed, c.tier, "C09-api")
        c.add_suite(r, sig_method)
        c.coverage["routes"] = {k[6:]: v for k, v in r.get("stats", {}).items() if k.startswith("route:")}
    return c.finish(
        level="proof",
        trusted=TRUSTED_COMMON + [
            "clone independence / determinism of the Rust code are facts about derived Clone on owned data (no static mut, Rc, "
            "RefCell, thread_local in src/): exercised Rust-vs-Rust, not proved",
            "the API routes are thin generic wrappers (src/core/method.rs, sequence.rs, helpers/history.rs); their model is "
            "YataModel/Runner.lean, compared through the bit-identical Rust-vs-Rust outputs of every route",
        ],
        rule="for 45 method types x lengths {1,2,3,5,14,31,254} (thorough: 16 lengths x 3 stream classes): next-by-next vs over(slice), "
             "over(Vec), Sequence::call, random chunkings with empty chunks, new_over (also on []), apply/new_apply (also on []), "
             "into_fn, new_fn, with_history (+get/iter), with_last_value (+peek), clone at a random point with the original then "
             "disturbed (and the clone racing ahead of its source), two identical instances, peek after every next; all compared "
             "bit-for-bit inside the harness; a flag line per route")


def run_extract(c):
    """translator: regenerate lean/Generated and the harness registry from /repo's current source"""
    rc, out, wall = sh(["python3", os.path.join(VERIF, "tools", "extract.py"), "/repo"], timeout=600)
    try:
        info = json.loads(out.strip().split("\n")[-1])
    except Exception:
        info = {"error": out[-500:]}
    c.coverage["translator"] = {k: info.get(k) for k in ("indicators", "untranslated", "serde_manual", "skipped", "unsafe_sites", "shared_state", "error")}
    return rc == 0 and "error" not in info


def C08(c):
    run_extract(c)
    c.proofs()
    exe = need_harness(c)
    if exe:
        c.add_suite(run_suite(exe, "api", c.seed, c.tier, "C08-methods", ["--which", "constant"]), sig_method)
        c.add_suite(run_suite(exe, "indapi", c.seed, c.tier, "C08-indicators", ["--which", "constant"]), sig_method)
    return c.finish(
        level="proof",
        trusted=TRUSTED_COMMON + NUMERIC_TRUST[:1] + [
            "the theorems are about the from-scratch specs (prefix invariance, fixed values); they transfer to the model through "
            "the model=spec theorems of C02-C04 where those exist; indicators and the remaining methods are covered by the run only",
            "float side: 'constant up to rounding and free of drift' is checked as |out_t - out_1| <= 1e-9*(scale+|out|) for 2000 "
            "(methods) / 700 (indicators) constant steps, signals and integer outputs exactly",
        ],
        rule="every method type x 7 (thorough 16x3) lengths: 2000 copies of the first input, then a stream with 1..300 extra leading "
             "copies vs none; every indicator x 4 (thorough 12) configurations x 3 candle shapes (flat, ranged, zero-volume): 700 "
             "copies of the initial candle, then streams with 1..40 extra leading copies; exempt: CollapseTimeframe, windowless "
             "ADI/Integral configurations (ChaikinOscillator window=0), parabolic SAR first step")


def C10(c):
    run_extract(c)
    c.proofs()
    exe = need_harness(c)
    if exe:
        c.add_suite(run_suite(exe, "ctor", c.seed, c.tier, "C10-ctor"), sig_method)
        c.add_suite(run_suite(exe, "indapi", c.seed, c.tier, "C10-indicators", ["--which", "params"]), sig_method)
        # indicator validate()/init against the model: boundary / invalid parameter values through the string setters must give
        # the same Ok / error kind as the Lean model of validate()/init (34 modelled indicators)
        c.add_suite(run_suite(exe, "ind", c.seed, c.tier, "C10-ind-init"), sig_method,
                    only=lambda mm: mm.get("class") in ("ind-init", "ind-panic"))
        # accepted instances must not panic however long they run (the same long streams as C07, panics only)
        c.add_suite(run_suite(exe, "indapi", c.seed, c.tier, "C10-long", ["--which", "long"]), sig_method,
                    only=lambda mm: "long_no_panic" in mm.get("sub", "") or "long_no_panic" in mm.get("raw", ""))
        # accepted METHOD instances must not panic on any finite input: the whole method suite (every stream class: signed
        # zeros, small alphabets, huge / tiny magnitudes, episodes ...), panics only
        c.add_suite(run_suite(exe, "methods", c.seed, c.tier, "C10-methods"), sig_method,
                    only=lambda mm: mm.get("class") == "panic")
    rel = need_harness(c, release=True)
    if rel:
        r = run_suite(rel, "ctor", c.seed, c.tier, "C10-ctor-release")
        r["tag"] = "release"
        c.add_suite(r, lambda mm: sig_method(mm) + ":release")
    c.coverage["exhaustive"] = True
    return c.finish(
        level="proof",
        trusted=TRUSTED_COMMON + [
            "debug profile (overflow checks, debug assertions) as in the baseline suite, plus a release build of the same sweep: "
            "a wrapped length must show up as a constructor/step disagreement with the model",
            "indicator init()/validate(): the 34 indicator models carry validate()/init and are compared with the real code on 14 (thorough 60) "
            "boundary / invalid configurations per indicator (error kind must agree); besides, every indicator parameter is swept on the real code (all 256 "
            "values per PeriodType parameter, all MA kinds x boundary lengths, numeric parameters incl. NaN/inf/0/negative/1e6, "
            "boundary-biased random tuples) and accepted instances are driven with valid candles",
        ],
        rule="methods: all 256 values of the length of every method (Conv: 0..300 weights; TSI / reversal detectors: 17x17 boundary "
             "pairs, thorough all 65 536) through the real constructor and the model constructor (Ok / Err kind / panic must agree), "
             "then 24 inputs; the finite parameter domain of the single-length methods is enumerated completely")


def C11(c):
    run_extract(c)
    c.proofs()
    exe = need_harness(c)
    if exe:
        c.add_suite(run_suite(exe, "indapi", c.seed, c.tier, "C11-interface", ["--which", "interface"]), sig_method)
        c.add_suite(run_suite(exe, "indapi", c.seed, c.tier, "C11-routes", ["--which", "routes"]), sig_method)
    return c.finish(
        level="proof",
        trusted=TRUSTED_COMMON + [
            "tools/extract.py (translator, ~300 lines): trusted to report what the source says or an `untranslated` entry; its output "
            "is cross-checked against the running code (size() and NAME from the registry vs the values the code returns)",
            "set() arm bodies are recognised only in their canonical shape (parse, Err => return Err, Ok(v) => self.<field> = v); "
            "value parsing itself (str::parse for numbers, MA, Source) is C18's model",
        ],
        rule="decide over the regenerated table of all indicators; on the real code: name/NAME, default validates and initialises, "
             "for every public parameter 6 valid/boundary texts + an unparsable one (exactly the named JSON field changes to the parsed "
             "value, or Err and nothing changes), 8 unknown names, result shape at every step, static vs Box<dyn> config and instance "
             "(init, next, over, name, size, validate, set), over/init_fn/into_fn/chunked/clone routes")


def C13(c):
    run_extract(c)
    c.proofs()
    exe = need_harness(c)
    if exe:
        c.add_suite(run_suite(exe, "window", c.seed, c.tier, "C13-window"), sig_window)
        c.add_suite(run_suite(exe, "api", c.seed, c.tier, "C13-methods", ["--which", "snapshot"]), sig_method)
        r = run_suite(exe, "indapi", c.seed, c.tier, "C13-indicators", ["--which", "snapshot"])
        c.add_suite(r, sig_method)
        c.coverage["snapshots_skipped_nonfinite_state"] = r.get("stats", {}).get("snapshot_skipped_nonfinite_state", 0)
    return c.finish(
        level="proof",
        trusted=TRUSTED_COMMON + [
            "serde_derive (bijection on field lists) and serde_json float text round-trip (float_roundtrip feature) are trusted for "
            "the derived impls; exercised by every snapshot",
            "JSON cannot represent NaN/inf: snapshots of states holding a non-finite float are counted and skipped "
            "(snapshots_skipped_nonfinite_state)",
        ],
        rule="Window: every capacity, serde round trip at random phases, adversarial JSON (index >= len, len in {MAX-1,MAX,MAX+1,MAX+45}, "
             "negative / oversized index, wrong types); every method type: snapshot after each of the first 2n+3 steps (every ring "
             "phase), windowless Integral included; every indicator x 4 (thorough 12) configurations: snapshot after each of the first "
             "60 steps; restored vs original on the continuation bit-for-bit; configurations round-trip to equal JSON")


CROSS_SUITES = [("window", []), ("methods", []), ("api", ["--which", "routes"]), ("api", ["--which", "snapshot"]),
                ("ind", []), ("indapi", ["--which", "snapshot"])]


def cross_build(c, base_exe, other_exe, other_name, suites=CROSS_SUITES):
    """identical programs (same seed, --compat) against two builds: transcripts must be bit-identical"""
    tot_lines = tot_cases = 0
    for suite, extra in suites:
        tag = f"{c.prop}-x-{suite}-{'-'.join(e.strip('-') for e in extra)}"
        ok1, ta, o1, _ = run_harness_only(base_exe, suite, c.seed, c.tier, tag + "-base", extra + ["--compat"])
        ok2, tb, o2, _ = run_harness_only(other_exe, suite, c.seed, c.tier, tag + "-" + other_name, extra + ["--compat"])
        if not (ok1 and ok2):
            path = c.write_replay(f"crossbuild-{other_name}-{suite}", [f"# harness run failed: {o1} {o2}"])
            c.violations.append((f"machinery:{other_name}:{suite}", path, "harness run failed"))
            continue
        n, cases, skipped, diff = compare_transcripts(ta, tb)
        c.coverage.setdefault("cross_build_skipped_rejected_by_default", 0)
        c.coverage["cross_build_skipped_rejected_by_default"] += skipped
        tot_lines += n
        tot_cases += cases
        if diff:
            lines = extract_case(ta, diff["case"]) if diff["case"] is not None else []
            path = c.write_replay(f"crossbuild-{other_name}-{suite}-case{diff['case']}", [
                f"# property {c.prop}: build '{other_name}' differs from the default build on identical input",
                f"# suite {suite} {' '.join(extra)} seed {c.seed} line {diff['line']}",
                f"# default: {diff['a']}", f"# {other_name}: {diff['b']}",
                f"# signature crossbuild:{other_name}:{suite}"] + lines)
            sig = f"crossbuild:{other_name}:{suite}"
            known = [k for k in c.known if k["property"] == c.prop and k["key"] == sig]
            if known:
                c.known_hits.setdefault(sig, known[0]["text"])
            else:
                c.violations.append((sig, path, f"{diff['a']} vs {diff['b']}"))
        # disk: the pair has been compared (and the failing case extracted); the other build's transcript goes now,
        # the base transcript at the end of the check
        try:
            if os.path.getsize(tb) > 50_000_000:
                os.remove(tb)
        except OSError:
            pass
    c.coverage["programs"] += tot_cases
    c.coverage["disagreements_checked"] += tot_lines
    c.coverage.setdefault("cross_build", {})[other_name] = {"cases": tot_cases, "lines_compared": tot_lines}


def C19(c):
    run_extract(c)
    c.proofs()
    base = need_harness(c)
    uns = need_harness(c, features=("unsafe_performance",))
    if base and uns:
        cross_build(c, base, uns, "unsafe_performance")
        # the unsafe build against the model as well (window + selection methods, where the unchecked accesses live)
        r = run_suite(uns, "window", c.seed, c.tier, "C19-window-unsafe", ["--compat"])
        r["tag"] = "unsafe"
        c.add_suite(r, sig_window)
        r = run_suite(uns, "methods", c.seed, c.tier, "C19-smm-unsafe", ["--methods", "smm,medad,highest,lowest,hindex,lindex,sma,past"])
        r["tag"] = "unsafe"
        c.add_suite(r, sig_method)
    return c.finish(
        level="proof",
        trusted=TRUSTED_COMMON + [
            "Rust semantics: get_unchecked(i) = [i] and ptr::copy = copy_within when the accessed ranges are in bounds (trusted); "
            "the theorems show the model's index expressions at every unchecked site are in bounds under the representation invariant",
            "memory safety of the compiled artefact is a runtime fact no model can exhibit: the two builds are compared bit-for-bit "
            "on identical programs (differential), thorough tier adds the feature build of the window/SMM programs under Miri when available",
        ],
        rule="the same seed and generators (window programs for every capacity, all method suites, API routes, snapshots, all indicator "
             "transcripts and snapshots) are executed by the default build and the unsafe_performance build; every transcript line "
             "must be bit-identical; the unsafe build is also replayed through the Lean model")


FEATURE_SETS = [("period_type_u16",), ("period_type_u32",), ("period_type_u64",),
                ("period_type_u16", "unsafe_performance"), ("period_type_u64", "unsafe_performance")]


def C20(c):
    c.proofs()
    base = need_harness(c)
    sets = FEATURE_SETS if c.tier == "thorough" else FEATURE_SETS[:3]
    if base:
        for fs in sets:
            exe = need_harness(c, features=fs)
            if exe:
                cross_build(c, base, exe, "+".join(fs), suites=CROSS_SUITES if c.tier == "thorough" else CROSS_SUITES[:2] + CROSS_SUITES[4:5])
        # definitional equalities beyond 255 in a wide build, and at single precision
        wide = need_harness(c, features=("period_type_u16",))
        if wide:
            r = run_suite(wide, "methods", c.seed, c.tier, "C20-wide", ["--wide"])
            r["tag"] = "u16-wide"
            c.add_suite(r, sig_method)
            r = run_suite(wide, "window", c.seed, c.tier, "C20-wide-window")
            r["tag"] = "u16"
            c.add_suite(r, sig_window)
            # indicators in the wide build through their models at P = 65535 (the long-window cases use lengths 255..1000)
            r = run_suite(wide, "ind", c.seed, c.tier, "C20-wide-ind")
            r["tag"] = "u16-ind"
            c.add_suite(r, sig_method, only=lambda mm: mm.get("class") in ("ind-init", "ind-value", "ind-signal", "ind-panic", "ind-shape"))
        f32 = need_harness(c, features=("value_type_f32",))
        if f32:
            r = run_suite(f32, "methods", c.seed, c.tier, "C20-f32")
            r["tag"] = "f32"
            c.add_suite(r, sig_method)
            # Renko at single precision: the lower bound of the brick size is the epsilon of the value type
            r = run_suite(f32, "renko", c.seed, c.tier, "C20-f32-renko")
            r["tag"] = "f32-renko"
            c.add_suite(r, sig_method)
    return c.finish(
        level="proof",
        trusted=TRUSTED_COMMON + NUMERIC_TRUST + [
            "the C01-C04/C10/C14 theorems are stated for an arbitrary maximum P of PeriodType and an arbitrary ordered field, so they "
            "cover every width and precision; feature builds are compiled artefacts: compared differentially (bit-identical transcripts "
            "for parameters <= 254; model replay with P = 65535 and lengths up to 5000; f32 with eps = 2^-23, C = 64)",
        ],
        rule="builds {u16,u32,u64 (+unsafe_performance in thorough)} vs default on identical --compat programs (window, methods, indicators; "
             "thorough adds API routes and snapshots): bit-identical; u16 build: method suite with lengths 255..5000 and window capacities "
             "to 4096 through the Lean model at P=65535; f32 build: full method suite through the model at single-precision allowance")


def C15(c):
    c.proofs()
    exe = need_harness(c)
    if exe:
        c.add_suite(run_suite(exe, "malaw", c.seed, c.tier, "C15-malaw"), sig_method)
        r = run_suite(exe, "methods", c.seed, c.tier, "C15-methods", ["--methods", METHOD_GROUPS["C15"]])
        c.add_suite(r, sig_method)
        c.coverage["spec_evaluations"] = r.get("summary", {}).get("spec_evals", 0)
    return c.finish(
        level="proof",
        trusted=TRUSTED_COMMON + NUMERIC_TRUST + [
            "theorems are about the specs of SMA, WMA and the exponential recurrence; the other kinds are checked by metamorphic "
            "relations on the real code (tolerance = the DESIGN §3.2 allowance at the scale of the mapped stream) and against their "
            "weight-profile specs through the model",
        ],
        rule="15 MA kinds x lengths {1,2,3,4,5,8,13,31,100,127,254} (thorough: all 1..254): MA(a*x+b) vs a*MA(x)+b for "
             "(a,b) in {(2,3),(-1.5,10),(0.001,-7),(-1,0)}, constants, MA(x+y) vs MA(x)+MA(y) for the linear kinds, hull of the values "
             "given for the non-negative kinds incl. volatile->flat->volatile / scale-jump / plateau streams, impulse responses (sum = 1, "
             "non-negative); Conv with positive weights and VWMA with positive volumes: hull; plus the method suite (with unit-impulse "
             "streams) through model and weight-profile specs")


def C07(c):
    c.proofs()
    exe = need_harness(c)
    if exe:
        r = run_suite(exe, "long", c.seed, c.tier, "C07-long")
        c.add_suite(r, sig_method)
        st = r.get("stats", {})
        c.coverage["late_positions"] = st.get("late_positions", 0)
        c.coverage["long_steps_total"] = st.get("long_steps", 0)
        c.coverage["lstep_checks"] = r.get("summary", {}).get("lsteps", 0)
        r2 = run_suite(exe, "indapi", c.seed, c.tier, "C07-indicators", ["--which", "long"])
        c.add_suite(r2, sig_method)
        c.coverage["indicator_late_positions"] = r2.get("stats", {}).get("long_ind_positions", 0)
        c.coverage["scale_law_steps"] = r2.get("stats", {}).get("scale_law_steps", 0)
        # long-window configurations of every indicator on long one-directional / wandering streams against the exact model:
        # counters, latches and streak lengths late in a stream (values, signals; the documented-rule findings of C05 / C06
        # are not this property's)
        r3 = run_suite(exe, "ind", c.seed, c.tier, "C07-ind-large", ["--large-only"])
        c.add_suite(r3, sig_method, only=lambda mm: mm.get("class") in ("ind-value", "ind-signal", "ind-panic", "ind-shape", "ind-init", "ind-finite"))
        c.coverage["indicator_model_steps"] = r3.get("summary", {}).get("spec_evals", 0)
    return c.finish(
        level="proof",
        trusted=TRUSTED_COMMON + NUMERIC_TRUST + [
            "indicators: every indicator (default + one random configuration) runs 20 000 (thorough 1 000 000) candles through volatile / "
            "flat / long one-directional ramps / 1e6 / 1e-3 / zero-volume regimes and must not panic; at late positions the result "
            "must agree (values to 1e-6 relative, signals exactly when the values are bit-identical) with a fresh instance started "
            "80x(total period)+400 candles earlier; the parabolic SAR and explicitly cumulative configurations (window = 0) have "
            "unbounded memory by definition and are checked for panics only (Rust-vs-Rust, no model)",
            "locality / forgetting theorems reduce every history length to a bounded suffix for the specs; that the floating-point "
            "accumulators stay within the allowance a = 1024*eps*(t+n)*scale at late positions is measured on the generated streams "
            "(quick: 70 000 steps per instance, thorough: 2 000 000), not proved; the double-accumulator averages (WMA, LinReg, SWMA) "
            "grow like t^1.4 and would cross the linear bound somewhere beyond 1e7-1e8 steps (DESIGN §3.2)",
        ],
        rule="34 method types x lengths {2,5,14,100} (thorough {1,2,3,5,14,50,127,254}): one instance runs 70 000 (2 000 000) steps "
             "through volatile / exactly flat / log-normal burst -> flat episodes / 1e6 / 1e-3 / small-integer regimes; at ~180 late positions "
             "(around 255, 256, 510, 512, 65535, 65536, the middle, the end, random, the steps at which the window has just gone flat in up to "
             "40 episodes, 16 positions inside the small-integer regime) the output is compared with a fresh exact model primed with the last "
             "window (selections, indices, signals exactly; arithmetic within the allowance at k=t+n); recursive methods: one exact "
             "model step from the serialized state at each of those positions; indicators: 20 000 (1 000 000) candles without a panic, late positions "
             "against a fresh instance, the exact power-of-two scale law at every step, long-window configurations on 1040-candle streams "
             "against the exact model")


# ---------------------------------------------------------------------------------------------
# indicators: C05 values, C06 signals, C12 ranges — one transcript, three independent comparisons
# ---------------------------------------------------------------------------------------------
MODELLED = ["MACD", "BollingerBands", "Aroon", "RelativeStrengthIndex", "StochasticOscillator", "DonchianChannel",
            "PriceChannelStrategy", "KeltnerChannel", "Envelopes", "IchimokuCloud", "ChaikinMoneyFlow", "MoneyFlowIndex",
            "ChandeMomentumOscillator", "TrueStrengthIndex", "SMIErgodicIndicator", "ParabolicSAR",
            # second tier
            "AwesomeOscillator", "ChaikinOscillator", "CommodityChannelIndex", "WoodiesCCI", "CoppockCurve",
            "DetrendedPriceOscillator", "EaseOfMovement", "EldersForceIndex", "HullMovingAverage", "Kaufman", "MomentumIndex",
            "Trix", "KlingerVolumeOscillator", "KnowSureThing", "RelativeVigorIndex", "PivotReversalStrategy",
            "ChandeKrollStop", "AverageDirectionalIndex",
            # irrational values: compared on the square / against a rational approximation of atanh
            "TrendStrengthIndex", "FisherTransform"]
UNMODELLED = []

IND_CLASSES = {
    "C05": ("ind-init", "ind-value", "ind-panic", "ind-shape", "ind-docval"),
    "C06": ("ind-signal", "ind-docsig"),
    "C12": ("ind-range", "ind-finite", "range"),
}

IND_TRUST = [
    "hand-written indicator models (lean/YataModel/Indicators.lean, Indicators2.lean, Indicators3.lean: all 36 indicators: " + ", ".join(MODELLED) +
    "); TrendStrengthIndex's p/sqrt(q) is compared on the square, FisherTransform's atanh against the rational approximation "
    "atanhQ of Indicators3.lean (about 2^-90 accurate by construction, accuracy not proved: part of the trusted base of that "
    "one comparison)",
    "tie: every `ind` transcript (every indicator x default + random valid configurations through the string setters, all 15 MA kinds, "
    "all Source kinds x candle classes walk/flat/gaps/zero-volume/volatile-flat-volatile) is replayed through the executable model "
    "by the compiled driver; init result kinds must agree, then every step is compared",
]


def ind_check(c, rule, trusted_extra):
    run_extract(c)
    c.proofs()
    exe = need_harness(c)
    if exe:
        r = run_suite(exe, "ind", c.seed, c.tier, f"{c.prop}-ind")
        classes = IND_CLASSES[c.prop]
        c.add_suite(r, sig_method, only=lambda mm: mm.get("class") in classes)
        summ = r.get("summary", {})
        c.coverage["values_compared"] = summ.get("spec_evals", 0)
        c.coverage["signals_compared"] = summ.get("lsteps", 0)
        c.coverage["exempt_steps"] = summ.get("exempt", 0)
        c.coverage["modelled_indicators"] = MODELLED
        # how much was really compared, per indicator: a comparison that is switched off for (almost) a whole case must
        # not go unnoticed (it did once: the SAR comparison ended at its first step)
        ist = r.get("istat", {})
        c.coverage["per_indicator"] = ist
        no_values = {"PivotReversalStrategy"}
        no_signals = {"DetrendedPriceOscillator"}
        thin = []
        for name in MODELLED:
            st = ist.get(name)
            if not st:
                thin.append(f"{name}: no case replayed")
                continue
            # steps whose value is legitimately exempt (a quotient of rounding residue on a flat stretch: comparison on, nothing
            # to compare) are not "switched off"; they are reported separately in the evidence (`exv`)
            if c.prop == "C05" and name not in no_values and (st["vals"] + st.get("exv", 0)) * 2 < st["steps"]:
                thin.append(f"{name}: only {st['vals']} values compared (+{st.get('exv', 0)} steps exempt) in {st['steps']} steps")
            if c.prop == "C06" and name not in no_signals and st["sigs"] * 2 < st["steps"]:
                thin.append(f"{name}: only {st['sigs']} signals compared in {st['steps']} steps")
        if thin and not r.get("error"):
            c.violations.append(("machinery:coverage", c.write_replay("coverage", ["# comparisons switched off:"] + ["# " + t for t in thin]),
                                 "; ".join(thin)))
        if c.prop == "C12":
            r2 = run_suite(exe, "methods", c.seed, c.tier, "C12-methods", ["--methods", "stdev,mad,medad,linvol,tr"])
            c.add_suite(r2, sig_method, only=lambda mm: mm.get("class") == "range")
            r3 = run_suite(exe, "candle", c.seed, c.tier, "C12-candle")
            c.add_suite(r3, sig_method, only=lambda mm: "range:" in mm.get("raw", ""))
    return c.finish(level="proof", trusted=TRUSTED_COMMON + NUMERIC_TRUST[:1] + IND_TRUST + trusted_extra, rule=rule)


def C05(c):
    return ind_check(c,
        rule="per indicator: default configuration + 5 (thorough 23) random valid configurations x 260 (thorough 600) candles; every "
             "returned value compared with the exact model's value under the allowance a = 1024*eps*(t+n)*kappa*scale; quotients "
             "through an interval enclosure (exempt when the denominator interval contains 0, except on all-flat histories where "
             "the guard value is required exactly); Bollinger bands on the square; later stages (signal lines, smoothings) are fed "
             "the implementation's own earlier value so that each stage is compared under its own allowance",
        trusted_extra=[
            "the Parabolic SAR comparison of a case ends (counted exempt) at the first step where the flip decision is within "
            "64 ulp of the SAR; sqrt is never evaluated (variance compared with the squared distance band-centre)",
            "cases configured with the Vidya average are reported under the one signature ind-value:vidya (its running sums amplify "
            "rounding residue: known finding shared with C03/C15; the MA dispatch itself is covered by C15's law suite through "
            "MA::from_str/init); CoppockCurve / KnowSureThing cases end (exempt) where a rate of change of a zero quantity is taken",
        ])


def C06(c):
    return ind_check(c,
        rule="every signal slot of the modelled indicators at every step: the documented rule (model `sigs`) is applied to the values "
             "the implementation itself returned (exact rationals of those floats); thresholds the code forms arithmetically "
             "(1 - zone) and candle sources (tp, hl2, ...) are rounded as the code rounds them, so crossing / band / zone decisions "
             "are compared exactly; proportional strengths (Bollinger, Aroon trend) must equal the quantiser level of the exact "
             "argument, exempt when the argument is within 8 ulp of a level boundary; after a non-finite value the detector states "
             "resynchronise for one step (counted exempt)",
        trusted_extra=["rne53 (round-to-nearest-even of a rational to binary64, normal range) in the driver, validated on the run itself: "
                       "a wrong rounding shows as a signal disagreement"])


def C12(c):
    return ind_check(c,
        rule="strict range / ordering test on the implementation's own values at every step, no exemption for undecidable guards: "
             "Aroon, RSI, MFI, Stochastic (non-overshooting MA kinds) in [0,1]; CMO, CMF, TSI, SMI in [-1,1]; Bollinger upper>=middle>=lower, "
             "Keltner/Envelopes/PriceChannel upper>=lower, Donchian contains the current high/low, SAR on the far side of the candle; "
             "slack C*eps*k*(hi-lo); a non-finite value in a bounded slot is a violation unless the exact denominator is zero and the code "
             "has no guard for it (CMF with zero total volume: formula undefined); dispersion methods (StDev, MeanAbsDev, MedianAbsDev, "
             "LinearVolatility, TR) must be >= 0 and CLV in [-1,1] on every valid candle",
        trusted_extra=["a range violation is tagged `-residue` when the exact denominator/guard of that slot is zero up to the allowance; "
                       "only those (rounding residue behind an exact == 0 guard) are listed as known findings"])


def replay(prop, path):
    """re-run a replay file: real code through the harness, then the driver"""
    text = open(path).read()
    if "no failing input" in text or "Lean obligations no longer check" in text:
        print(text)
        print(f"[{prop}] this replay names a broken proof obligation / correspondence; rebuild with: "
              f"cd /verif/lean && lake build YataProps.{prop}")
        return 1
    ok, exe, out, _ = build_harness()
    if not ok:
        print(out)
        return 1
    os.makedirs(WORK, exist_ok=True)
    m = re.search(r"^# suite (\S+) seed (\d+) tier (\S+) extra ?(.*)$", text, flags=re.M)
    sig = re.search(r"^# signature (\S+)", text, flags=re.M)
    if m and ("comp=flags" in text or m.group(1) == "long"):
        # Rust-vs-Rust comparisons are made inside the harness, and a late-position case of the long-run suite is the
        # end of a history of up to 2e6 steps that the case itself does not contain: re-run that suite with the recorded seed
        sh(["lake", "build", "driver"], cwd=LEAN)
        r = run_suite(exe, m.group(1), int(m.group(2)), m.group(3), f"replay-{prop}", m.group(4).split())
        hits = [mm for mm in r["mismatches"] if sig is None or sig_method(mm) == sig.group(1)]
        for mm in hits[:5]:
            print(mm["raw"])
        print(f"[{prop}] replay {path}: suite {m.group(1)} seed {m.group(2)}: {len(hits)} disagreement(s) with this signature")
        return 1 if hits else 0
    tr = os.path.join(WORK, f"replay-{prop}.tr")
    rc, out, _ = sh([exe, "replay", "--replay", path, "--out", tr])
    if rc != 0:
        print(out)
        return 1
    rc, out, _ = sh(["lake", "build", "driver"], cwd=LEAN)
    res = run_driver(tr)
    for mm in res["mismatches"]:
        print(mm["raw"])
    print(f"[{prop}] replay {path}: {res['summary']}")
    return 1 if res["mismatches"] or res.get("error") else 0


PROPS = {"C05": C05, "C06": C06, "C12": C12, "C01": C01, "C02": C02, "C03": C03, "C04": C04, "C14": C14, "C16": C16, "C18": C18, "C17": C17, "C09": C09, "C08": C08, "C10": C10, "C11": C11, "C13": C13, "C19": C19, "C20": C20, "C15": C15, "C07": C07}
