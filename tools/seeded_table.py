#!/usr/bin/env python3
"""Regenerates the table of DESIGN.md §11 from the `detection` records in /verif/seeded/*/meta.json
(written by `tools/seeded.py detect`).  Usage: python3 tools/seeded_table.py  (rewrites the table in place)."""
import json, os
V = os.path.dirname(os.path.dirname(os.path.abspath(__file__)))
SEEDED = os.path.join(V, "seeded")
rows = []
n = caught_n = 0
for name in sorted(os.listdir(SEEDED)):
    mp = os.path.join(SEEDED, name, "meta.json")
    if not os.path.exists(mp):
        continue
    m = json.load(open(mp))
    n += 1
    parts, ok = [], False
    for p, v in m.get("detection", {}).items():
        sigs = ", ".join(v.get("signatures", [])[:2])
        if v.get("caught"):
            ok = True
            parts.append(f"{p} (proof obligation only, no failing input): `{sigs}`" if v.get("no_failing_input") else f"{p}: `{sigs}`")
        else:
            parts.append(f"{p}: **missed**")
    caught_n += ok
    summ = m.get("summary", "").replace("|", "\\|").replace("\n", " ")[:230]
    rows.append(f"| {name} | {summ} | {'; '.join(parts)} |")
tbl = "| seeded change | what it does | caught by (signature) |\n|---|---|---|\n" + "\n".join(rows) + "\n"
p = os.path.join(V, "DESIGN.md")
s = open(p).read()
a = s.index("| seeded change | what it does | caught by (signature) |")
b = s.index("## Appendix A")
open(p, "w").write(s[:a] + tbl + "\n\n" + s[b:])
print(f"{n} seeded changes, {caught_n} caught")
