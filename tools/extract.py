#!/usr/bin/env python3
"""Translator: re-reads /repo/src on every run and regenerates

   * lean/Generated/IndicatorTable.lean — per indicator: NAME, public fields and types, set() arms
     (string -> assigned field), size(), arities of the slices given to IndicatorResult::new, so that the
     theorems of YataProps/C11.lean quantify over what the code says now;
   * lean/Generated/Surface.lean — serde surface (hand-written Serialize/Deserialize impls, skipped fields),
     unsafe sites (get_unchecked / ptr::copy with their index expressions), shared-state constructs
     (static mut, Rc, RefCell, Cell, thread_local, raw pointers) for C09/C13/C19;
   * harness/src/generated.rs — the registry the harness uses to drive every indicator generically.

   Syntax outside the small grammar below is emitted as an explicit `untranslated` entry (never a default).
"""
import os, re, sys, json, hashlib

REPO = sys.argv[1] if len(sys.argv) > 1 else "/repo"
VERIF = os.path.dirname(os.path.dirname(os.path.abspath(__file__)))
SRC = os.path.join(REPO, "src")


def strip_comments(s):
    s = re.sub(r"//[^\n]*", "", s)
    s = re.sub(r"/\*.*?\*/", "", s, flags=re.S)
    return s


def block_after(s, start):
    """text of the brace block that opens at/after index start"""
    i = s.index("{", start)
    depth, j = 0, i
    while j < len(s):
        if s[j] == "{":
            depth += 1
        elif s[j] == "}":
            depth -= 1
            if depth == 0:
                return s[i + 1:j], j + 1
        j += 1
    raise ValueError("unbalanced braces")


def lean_str(s):
    return '"' + s.replace("\\", "\\\\").replace('"', '\\"') + '"'


def parse_indicator(path):
    raw = open(path).read()
    s = strip_comments(raw)
    info = {"file": os.path.relpath(path, REPO), "untranslated": []}
    m = re.search(r"impl(?:<[^>]*>)?\s+IndicatorConfig\s+for\s+(\w+)(<[^>]*>)?\s*\{", s)
    if not m:
        return None
    info["config"] = m.group(1)
    info["generic"] = bool(m.group(2))
    body, _ = block_after(s, m.start())
    nm = re.search(r'const\s+NAME\s*:\s*&\'static\s+str\s*=\s*"([^"]*)"', body)
    info["name"] = nm.group(1) if nm else None
    if not nm:
        info["untranslated"].append("NAME")
    im = re.search(r"type\s+Instance\s*=\s*(\w+)", body)
    info["instance"] = im.group(1) if im else None
    # public fields of the config struct
    sm = re.search(r"pub\s+struct\s+" + info["config"] + r"\b[^{;]*\{", s)
    fields = []
    if sm:
        sb, _ = block_after(s, sm.start())
        for fm in re.finditer(r"(pub\s+)?(\w+)\s*:\s*([^,\n]+),", sb):
            fields.append({"name": fm.group(2), "type": fm.group(3).strip(), "pub": bool(fm.group(1))})
    else:
        info["untranslated"].append("struct")
    info["fields"] = fields
    # set(): arms
    setm = re.search(r"fn\s+set\s*\(", body)
    arms = []
    if setm:
        sb, _ = block_after(body, setm.start())
        mm = re.search(r"match\s+name\s*\{", sb)
        if mm:
            mb, _ = block_after(sb, mm.start())
            pos = 0
            for am in re.finditer(r'"(\w+)"\s*=>\s*match\s+value\.parse\(\)\s*\{', mb):
                ab, _ = block_after(mb, am.end() - 1)
                asg = re.findall(r"Ok\(\s*value\s*\)\s*=>\s*self\.(\w+)\s*=\s*value", ab)
                err = re.search(r"Err\(\s*_\s*\)\s*=>\s*return\s+Err\(", ab)
                others = re.findall(r"self\.(\w+)\s*=", ab)
                if len(asg) == 1 and err and others == asg:
                    arms.append({"key": am.group(1), "field": asg[0]})
                else:
                    arms.append({"key": am.group(1), "field": None})
                    info["untranslated"].append(f"set arm {am.group(1)}")
            keys_all = re.findall(r'"(\w+)"\s*=>', mb)
            for k in keys_all:
                if k not in [a["key"] for a in arms]:
                    arms.append({"key": k, "field": None})
                    info["untranslated"].append(f"set arm {k}")
            if not re.search(r"_\s*=>\s*\{?\s*return\s+Err\(", mb):
                info["untranslated"].append("set default arm")
        else:
            info["untranslated"].append("set body")
    else:
        info["untranslated"].append("set")
    info["set_arms"] = arms
    # size()
    szm = re.search(r"fn\s+size\s*\([^)]*\)\s*->\s*\(u8\s*,\s*u8\)\s*\{\s*\(\s*(\d+)\s*,\s*(\d+)\s*\)\s*\}", body)
    if szm:
        info["size"] = [int(szm.group(1)), int(szm.group(2))]
    else:
        info["size"] = None
        info["untranslated"].append("size")
    # IndicatorResult::new(&[...], &[...]) arities in the instance's next
    arities = []
    for rm in re.finditer(r"IndicatorResult::new\(\s*&(\[[^\]]*\]|\w+)\s*,\s*&(\[[^\]]*\]|\w+)\s*,?\s*\)", s, flags=re.S):
        def arity(tok):
            if tok.startswith("["):
                inner = tok[1:-1].strip()
                if not inner:
                    return 0
                depth, n = 0, 1
                for ch in inner.rstrip(","):
                    if ch in "([":
                        depth += 1
                    elif ch in ")]":
                        depth -= 1
                    elif ch == "," and depth == 0:
                        n += 1
                return n
            # a named local array: find `let <tok> = [ ... ];` or `let <tok>: [T; N]`
            lm = re.search(r"let\s+(?:mut\s+)?" + tok + r"\s*(?::\s*\[[^;\]]*;\s*(\d+)\s*\])?\s*=\s*\[", s)
            if lm and lm.group(1):
                return int(lm.group(1))
            if lm:
                arr, _ = None, None
                i = s.index("[", lm.end() - 1)
                depth, j = 0, i
                while True:
                    if s[j] == "[":
                        depth += 1
                    elif s[j] == "]":
                        depth -= 1
                        if depth == 0:
                            break
                    j += 1
                inner = s[i + 1:j].strip().rstrip(",")
                if ";" in inner and re.match(r".*;\s*\d+$", inner, flags=re.S):
                    return int(inner.rsplit(";", 1)[1])
                depth, n = 0, 1
                for ch in inner:
                    if ch in "([":
                        depth += 1
                    elif ch in ")]":
                        depth -= 1
                    elif ch == "," and depth == 0:
                        n += 1
                return n if inner else 0
            return None
        arities.append([arity(rm.group(1)), arity(rm.group(2))])
    if not arities or any(a is None for pair in arities for a in pair):
        info["untranslated"].append("IndicatorResult::new arity")
    info["result_arities"] = arities
    # validate() text
    vm = re.search(r"fn\s+validate\s*\(\s*&self\s*\)\s*->\s*bool\s*\{", body)
    if vm:
        vb, _ = block_after(body, vm.start())
        info["validate"] = " ".join(vb.split())
    else:
        info["validate"] = None
        info["untranslated"].append("validate")
    # Default impl
    dm = re.search(r"impl\s+Default\s+for\s+" + info["config"] + r"(?:<[^>]*>)?\s*\{", s)
    info["has_default"] = bool(dm)
    info["hash"] = hashlib.sha256(s.encode()).hexdigest()[:16]
    return info


def scan_surface():
    serde_manual, skipped, unsafe_sites, shared = [], [], [], []
    for root, _, files in os.walk(SRC):
        for f in sorted(files):
            if not f.endswith(".rs"):
                continue
            p = os.path.join(root, f)
            rel = os.path.relpath(p, REPO)
            raw = open(p).read()
            # drop the test module
            t = re.search(r"#\[cfg\(test\)\]", raw)
            code = strip_comments(raw[:t.start()] if t else raw)
            for m in re.finditer(r"impl(?:<[^>]*>)?\s+(Serialize|Deserialize(?:<[^>]*>)?)\s+for\s+(\w+)", code):
                serde_manual.append((rel, m.group(2), m.group(1).split("<")[0]))
            for m in re.finditer(r"serde\(\s*(skip\w*)", code):
                skipped.append((rel, m.group(1)))
            for m in re.finditer(r"\.(get_unchecked(?:_mut)?)\(\s*([^)]*)\)", code):
                line = code[:m.start()].count("\n") + 1
                unsafe_sites.append((rel, line, m.group(1), " ".join(m.group(2).split())))
            for m in re.finditer(r"(ptr::copy(?:_nonoverlapping)?)\s*\(", code):
                line = code[:m.start()].count("\n") + 1
                unsafe_sites.append((rel, line, m.group(1), ""))
            for pat in (r"static\s+mut\b", r"\bRc<", r"\bRefCell<", r"\bCell<", r"thread_local!", r"\*mut\s+\w", r"\*const\s+\w", r"\bArc<", r"\bMutex<", r"lazy_static"):
                for m in re.finditer(pat, code):
                    line = code[:m.start()].count("\n") + 1
                    ctx = code[max(0, m.start() - 40):m.end() + 20]
                    # raw pointers produced by as_ptr()/add() inside the audited unsafe block are listed as unsafe sites
                    shared.append((rel, line, m.group(0)))
    return serde_manual, skipped, unsafe_sites, shared


def main():
    ind_dir = os.path.join(SRC, "indicators")
    mods = re.findall(r"^mod\s+(\w+);", strip_comments(open(os.path.join(ind_dir, "mod.rs")).read()), flags=re.M)
    infos = []
    for m in mods:
        info = parse_indicator(os.path.join(ind_dir, m + ".rs"))
        if info:
            info["module"] = m
            infos.append(info)
    serde_manual, skipped, unsafe_sites, shared = scan_surface()

    gen_dir = os.path.join(VERIF, "lean", "Generated")
    os.makedirs(gen_dir, exist_ok=True)
    L = ["/- GENERATED by tools/extract.py from /repo/src/indicators/*.rs — do not edit. -/",
         "namespace Yata.Generated", "",
         "structure SetArm where", "  key : String", "  field : Option String   -- none = arm not of the canonical shape", "  deriving Repr, DecidableEq", "",
         "structure IndicatorRow where",
         "  config : String", "  name : Option String", "  file : String", "  generic : Bool",
         "  pubFields : List (String × String)", "  privFields : List String", "  setArms : List SetArm",
         "  size : Option (Nat × Nat)", "  resultArities : List (Option Nat × Option Nat)",
         "  hasDefault : Bool", "  untranslated : List String", "  deriving Repr", ""]
    L.append("def indicatorTable : List IndicatorRow := [")
    rows = []
    for i in infos:
        pf = ", ".join(f"({lean_str(f['name'])}, {lean_str(f['type'])})" for f in i["fields"] if f["pub"])
        pr = ", ".join(lean_str(f["name"]) for f in i["fields"] if not f["pub"])
        arms = ", ".join("{ key := %s, field := %s }" % (lean_str(a["key"]), ("some " + lean_str(a["field"])) if a["field"] else "none") for a in i["set_arms"])
        size = f"some ({i['size'][0]}, {i['size'][1]})" if i["size"] else "none"
        opt = lambda a: f"some {a}" if a is not None else "none"
        ar = ", ".join(f"({opt(a[0])}, {opt(a[1])})" for a in i["result_arities"])
        un = ", ".join(lean_str(u) for u in i["untranslated"])
        rows.append("  { config := %s, name := %s, file := %s, generic := %s,\n    pubFields := [%s], privFields := [%s],\n    setArms := [%s],\n    size := %s, resultArities := [%s], hasDefault := %s, untranslated := [%s] }" % (
            lean_str(i["config"]), ("some " + lean_str(i["name"])) if i["name"] else "none", lean_str(i["file"]),
            "true" if i["generic"] else "false", pf, pr, arms, size, ar, "true" if i["has_default"] else "false", un))
    L.append(",\n".join(rows))
    L.append("]")
    L.append("")
    L.append("end Yata.Generated")
    open(os.path.join(gen_dir, "IndicatorTable.lean"), "w").write("\n".join(L) + "\n")

    S = ["/- GENERATED by tools/extract.py from /repo/src — do not edit. -/", "namespace Yata.Generated", "",
         "/-- hand-written `impl Serialize/Deserialize for T` (file, type, trait) -/",
         "def serdeManual : List (String × String × String) := [" + ", ".join(f"({lean_str(a)}, {lean_str(b)}, {lean_str(c)})" for a, b, c in serde_manual) + "]", "",
         "/-- `#[serde(skip…)]` attributes (file, attribute) -/",
         "def serdeSkipped : List (String × String) := [" + ", ".join(f"({lean_str(a)}, {lean_str(b)})" for a, b in skipped) + "]", "",
         "/-- unchecked memory accesses (file, line, construct, index expression) -/",
         "def unsafeSites : List (String × Nat × String × String) := [" + ",\n  ".join(f"({lean_str(a)}, {b}, {lean_str(c)}, {lean_str(d)})" for a, b, c, d in unsafe_sites) + "]", "",
         "/-- shared / interior-mutable state constructs outside tests (file, line, construct) -/",
         "def sharedState : List (String × Nat × String) := [" + ", ".join(f"({lean_str(a)}, {b}, {lean_str(c)})" for a, b, c in shared) + "]", "",
         "end Yata.Generated"]
    open(os.path.join(gen_dir, "Surface.lean"), "w").write("\n".join(S) + "\n")

    # harness registry
    R = ["// GENERATED by tools/extract.py from /repo/src/indicators/*.rs — do not edit.",
         "#![allow(unused_imports, clippy::all)]",
         "use yata::indicators::*;", "use crate::indicators::IndVisitor;", "",
         "pub struct IndMeta { pub config: &'static str, pub name: &'static str, pub fields: &'static [(&'static str, &'static str)], pub set_keys: &'static [&'static str], pub size: (u8, u8) }", "",
         "pub const REGISTRY: &[IndMeta] = &["]
    for i in infos:
        flds = ", ".join(f'("{f["name"]}", "{f["type"]}")' for f in i["fields"] if f["pub"])
        keys = ", ".join(f'"{a["key"]}"' for a in i["set_arms"])
        sz = i["size"] or [0, 0]
        R.append(f'\tIndMeta {{ config: "{i["config"]}", name: "{i["name"] or ""}", fields: &[{flds}], set_keys: &[{keys}], size: ({sz[0]}, {sz[1]}) }},')
    R.append("];")
    R.append("")
    R.append("pub fn dispatch<V: IndVisitor>(config: &str, v: &mut V) {")
    R.append("\tmatch config {")
    for i in infos:
        ty = i["config"]
        R.append(f'\t\t"{ty}" => v.visit::<{ty}>("{ty}"),')
    R.append('\t\tother => panic!("unknown indicator {other}"),')
    R.append("\t}")
    R.append("}")
    open(os.path.join(VERIF, "harness", "src", "generated.rs"), "w").write("\n".join(R) + "\n")

    summary = {"indicators": len(infos), "untranslated": {i["config"]: i["untranslated"] for i in infos if i["untranslated"]},
               "serde_manual": serde_manual, "skipped": skipped, "unsafe_sites": len(unsafe_sites), "shared_state": shared,
               "hashes": {i["config"]: i["hash"] for i in infos}}
    print(json.dumps(summary))


if __name__ == "__main__":
    main()
