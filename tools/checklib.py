#!/usr/bin/env python3
"""Orchestration shared by every property check (see DESIGN.md §2.4).

   1. regenerate the translator tables from /repo (tools/extract.py) where the property uses them
   2. build + audit the Lean property module (theorems, axioms, no sorry/native_decide/...)
   3. build the Rust harness against /repo's working tree
   4. run the harness suites, replay the transcripts through the Lean driver
   5. classify disagreements (known findings vs violations), write replays and evidence
"""
import json, os, re, subprocess, sys, time, shutil, hashlib

VERIF = os.path.dirname(os.path.dirname(os.path.abspath(__file__)))
LEAN = os.path.join(VERIF, "lean")
HARNESS = os.path.join(VERIF, "harness")
WORK = os.path.join(VERIF, "work")
REPLAYS = os.path.join(VERIF, "replays")
EVIDENCE = os.path.join(VERIF, "evidence")
# runs against a deliberately modified /repo (tools/seeded.py) must not overwrite the evidence of the real tree
EVIDENCE = os.environ.get("VERIF_EVIDENCE_DIR", EVIDENCE)
KNOWN = os.path.join(VERIF, "KNOWN_FINDINGS.txt")
DRIVER = os.path.join(LEAN, ".lake", "build", "bin", "driver")

ALLOWED_AXIOMS = {"propext", "Classical.choice", "Quot.sound"}
FORBIDDEN = re.compile(r"\b(sorry|admit|native_decide|bv_decide|implemented_by|maxHeartbeats\s+0)\b|^\s*axiom\s|\bunsafe\s")

ENV = dict(os.environ)
ENV["CARGO_NET_OFFLINE"] = "true"
ENV.setdefault("CARGO_TERM_COLOR", "never")


def sh(cmd, cwd=None, timeout=None, env=None, stdin=None):
    t0 = time.time()
    p = subprocess.run(cmd, cwd=cwd, env=env or ENV, stdout=subprocess.PIPE, stderr=subprocess.STDOUT,
                       timeout=timeout, text=True, input=stdin, errors="replace")
    return p.returncode, p.stdout, time.time() - t0


def strip_comments(text):
    # remove /- ... -/ (nested not needed here) and -- line comments
    text = re.sub(r"/-.*?-/", lambda m: "\n" * m.group(0).count("\n"), text, flags=re.S)
    return "\n".join(l.split("--")[0] for l in text.split("\n"))


def audit_sources():
    """forbidden constructs anywhere in the Lean project (comments stripped)"""
    hits = []
    for root, _, files in os.walk(LEAN):
        if ".lake" in root:
            continue
        for f in files:
            if not f.endswith(".lean"):
                continue
            p = os.path.join(root, f)
            # the driver's IO loop may be `partial`; theorems never mention it
            body = strip_comments(open(p).read())
            for i, line in enumerate(body.split("\n"), 1):
                if FORBIDDEN.search(line):
                    hits.append(f"{os.path.relpath(p, VERIF)}:{i}: {line.strip()}")
    return hits


def lean_check(prop, extra_targets=()):
    """build the property module; returns dict(ok, theorems{name:[axioms]}, bad, log, wall)"""
    mod = f"YataProps.{prop}"
    path = os.path.join(LEAN, "YataProps", f"{prop}.lean")
    res = {"ok": False, "theorems": {}, "bad": [], "log": "", "wall": 0.0, "module": mod}
    if not os.path.exists(path):
        res["bad"].append(f"missing {path}")
        return res
    rc, out, wall = sh(["lake", "build", mod, "driver", *extra_targets], cwd=LEAN, timeout=3600)
    res["log"] = out[-6000:]
    res["wall"] = wall
    if rc != 0:
        # which declarations failed
        errs = re.findall(r"error: (\S+?):(\d+):\d+: (.*)", out)
        res["bad"] = [f"{f}:{l}: {m}" for f, l, m in errs[:20]] or ["lake build failed"]
        return res
    # elaborate the property file itself so the axiom report is always fresh
    rc, out2, w2 = sh(["lake", "env", "lean", os.path.join("YataProps", f"{prop}.lean")], cwd=LEAN, timeout=3600)
    res["wall"] += w2
    if rc != 0:
        res["bad"].append("property file does not elaborate: " + out2[-2000:])
        return res
    for m in re.finditer(r"'([^']+)' depends on axioms: \[([^\]]*)\]", out2):
        res["theorems"][m.group(1)] = [a.strip() for a in m.group(2).split(",") if a.strip()]
    for m in re.finditer(r"'([^']+)' does not depend on any axioms", out2):
        res["theorems"][m.group(1)] = []
    # every theorem declared in the property file must be reported
    src = strip_comments(open(path).read())
    declared = re.findall(r"^\s*theorem\s+([A-Za-z0-9_'.]+)", src, flags=re.M)
    ns = re.search(r"^namespace\s+(\S+)", src, flags=re.M)
    prefix = (ns.group(1) + ".") if ns else ""
    for d in declared:
        full = prefix + d
        if full not in res["theorems"]:
            res["bad"].append(f"theorem {full} has no #print axioms report")
    for name, axs in res["theorems"].items():
        extra = [a for a in axs if a not in ALLOWED_AXIOMS]
        if extra:
            res["bad"].append(f"theorem {name} uses axioms {extra}")
    hits = audit_sources()
    if hits:
        res["bad"].extend("forbidden construct: " + h for h in hits[:10])
    res["ok"] = not res["bad"] and len(res["theorems"]) > 0
    return res


def leanchecker(prop):
    rc, out, wall = sh(["lake", "env", "leanchecker", f"YataProps.{prop}"], cwd=LEAN, timeout=3600)
    return rc == 0, out[-2000:], wall


def feature_dir(features, release):
    tag = "-".join(sorted(features)) or "default"
    return os.path.join(HARNESS, "target-" + tag + ("-rel" if release else ""))


def build_harness(features=(), release=False):
    tdir = feature_dir(features, release)
    cmd = ["cargo", "build", "--offline", "--target-dir", tdir]
    if release:
        cmd.append("--release")
    if features:
        cmd += ["--features", ",".join(features)]
    rc, out, wall = sh(cmd, cwd=HARNESS, timeout=3600)
    exe = os.path.join(tdir, "release" if release else "debug", "yata_harness")
    return rc == 0 and os.path.exists(exe), exe, out[-4000:], wall


def run_suite(exe, suite, seed, tier, tag, extra=()):
    """run one harness suite and replay it through the driver.
       returns dict(stats, summary, mismatches[list of dict], transcript path)"""
    os.makedirs(WORK, exist_ok=True)
    tr = os.path.join(WORK, f"{tag}.tr")
    st = os.path.join(WORK, f"{tag}.stats.json")
    for p in (tr, st):
        if os.path.exists(p):
            os.remove(p)
    rc, out, w1 = sh([exe, suite, "--seed", str(seed), "--tier", tier, "--out", tr, "--stats", st, *extra],
                     timeout=7200)
    res = {"suite": suite, "extra": list(extra), "harness_rc": rc, "harness_out": out[-2000:], "wall_harness": w1,
           "transcript": tr, "stats": {}, "samples": [], "mismatches": [], "summary": {}}
    if rc != 0 or not os.path.exists(tr):
        res["error"] = f"harness failed rc={rc}: {out[-500:]}"
        return res
    try:
        j = json.load(open(st))
        res["stats"] = j.get("stats", {})
        res["samples"] = j.get("samples", [])
        res["lines"] = j.get("lines", 0)
    except Exception as e:  # noqa
        res["error"] = f"stats unreadable: {e}"
    res.update(run_driver(tr))
    return res


def _parse_driver_output(out, transcript):
    res = {"mismatches": [], "summary": {}, "notes": []}
    for line in out.split("\n"):
        if line.startswith("MISMATCH") or line.startswith("UNKNOWN-COMPONENT"):
            d = {"raw": line, "transcript": transcript}
            for m in re.finditer(r'(\w+)=("([^"]*)"|\S+)', line):
                d[m.group(1)] = m.group(3) if m.group(3) is not None else m.group(2)
            d["kind"] = line.split()[0]
            res["mismatches"].append(d)
        elif line.startswith("SUMMARY"):
            for m in re.finditer(r"(\w+)=(\S+)", line):
                try:
                    res["summary"][m.group(1)] = int(m.group(2))
                except ValueError:
                    res["summary"][m.group(1)] = m.group(2)
        elif line.startswith("NOTE"):
            res["notes"].append(line)
        elif line.startswith("ISTAT"):
            d = dict(m.groups() for m in re.finditer(r"(\w+)=(\S+)", line))
            st = res.setdefault("istat", {}).setdefault(d.get("name", "?"), {"cases": 0, "steps": 0, "vals": 0, "sigs": 0, "exv": 0})
            st["cases"] += 1
            for k in ("steps", "vals", "sigs", "exv"):
                st[k] += int(d.get(k, 0))
    return res


def split_transcript(transcript, k):
    """split at case boundaries into k chunks of similar size (greedy by bytes); two streaming passes, so that a
       transcript of several GB is never held in memory"""
    header, sizes_case = [], []
    with open(transcript) as f:
        started = False
        for line in f:
            if line.startswith("C "):
                started = True
                sizes_case.append(len(line))
            elif not started:
                header.append(line)
            else:
                sizes_case[-1] += len(line)
    sizes = [0] * k
    owner = [0] * len(sizes_case)
    for i in sorted(range(len(sizes_case)), key=lambda i: -sizes_case[i]):
        j = sizes.index(min(sizes))
        owner[i] = j
        sizes[j] += sizes_case[i]
    used = sorted(set(owner))
    outs = {j: open(f"{transcript}.part{j}", "w") for j in used}
    for fo in outs.values():
        fo.writelines(header)
    with open(transcript) as f:
        idx, cur = -1, None
        for line in f:
            if line.startswith("C "):
                idx += 1
                cur = outs[owner[idx]]
            if cur is not None:
                cur.write(line)
    for fo in outs.values():
        fo.close()
    return [f"{transcript}.part{j}" for j in used]


def run_driver(transcript, jobs=16):
    t0 = time.time()
    size = os.path.getsize(transcript)
    parts = split_transcript(transcript, jobs) if size > 2_000_000 else [transcript]
    procs = [(p, subprocess.Popen([DRIVER, p], stdout=subprocess.PIPE, stderr=subprocess.STDOUT, text=True,
                                  errors="replace")) for p in parts]
    res = {"driver_rc": 0, "mismatches": [], "summary": {}, "notes": []}
    for p, pr in procs:
        out, _ = pr.communicate()
        r = _parse_driver_output(out, p)
        if not r["summary"]:
            res["error"] = "driver produced no SUMMARY on " + p + ": " + out[-500:]
        res["mismatches"] += r["mismatches"]
        res["notes"] += r["notes"]
        for nm, st in r.get("istat", {}).items():
            agg = res.setdefault("istat", {}).setdefault(nm, {"cases": 0, "steps": 0, "vals": 0, "sigs": 0})
            for k in st:
                agg[k] = agg.get(k, 0) + st[k]
        for k2, v in r["summary"].items():
            if isinstance(v, int):
                res["summary"][k2] = res["summary"].get(k2, 0) + v
        res["driver_rc"] |= pr.returncode
    res["wall_driver"] = time.time() - t0
    return res


def run_harness_only(exe, suite, seed, tier, tag, extra=()):
    """run a harness suite without the driver (cross-build comparisons)"""
    os.makedirs(WORK, exist_ok=True)
    tr = os.path.join(WORK, f"{tag}.tr")
    st = os.path.join(WORK, f"{tag}.stats.json")
    rc, out, w = sh([exe, suite, "--seed", str(seed), "--tier", tier, "--out", tr, "--stats", st, *extra], timeout=7200)
    return rc == 0 and os.path.exists(tr), tr, out[-500:], w


def _case_stream(path):
    """yield (case id, lines) one case at a time, ignoring the P/V header lines"""
    cur, lines = None, []
    with open(path) as f:
        for l in f:
            if l.startswith(("P ", "V ")):
                continue
            if l.startswith("C "):
                if cur is not None:
                    yield cur, lines
                cur, lines = l.split()[1], [l]
            elif cur is not None:
                lines.append(l)
    if cur is not None:
        yield cur, lines


def compare_transcripts(a, b):
    """bit-identity of two transcripts case by case, ignoring the P/V header lines.  Cases whose
       constructor is refused (Err/panic) by the DEFAULT build are outside 'parameters that fit the
       default type' and are skipped.  Both files are streamed (same programs, same order).
       returns (lines compared, cases, skipped, None | dict)"""
    n = ncases = skipped = 0
    sb = _case_stream(b)
    for cid, la in _case_stream(a):
        nb = next(sb, None)
        ctor = next((l for l in la if l.startswith("N ")), None)
        if nb is None or nb[0] != cid:
            if ctor is not None and (" ; ok" not in ctor):
                skipped += 1
            ncases += 1
            return n, ncases, skipped, {"line": 0, "case": cid, "a": la[0].strip()[:300],
                                         "b": "(case missing)" if nb is None else f"(case {nb[0]} in its place)"}
        lb = nb[1]
        if ctor is not None and (" ; ok" not in ctor):
            skipped += 1
            continue
        ncases += 1
        for i, (x, y) in enumerate(zip(la, lb)):
            n += 1
            if x != y:
                return n, ncases, skipped, {"line": i + 1, "case": cid, "a": x.strip()[:400], "b": y.strip()[:400]}
        if len(la) != len(lb):
            return n, ncases, skipped, {"line": min(len(la), len(lb)) + 1, "case": cid, "a": f"{len(la)} lines", "b": f"{len(lb)} lines"}
    extra = next(sb, None)
    if extra is not None:
        return n, ncases, skipped, {"line": 0, "case": None, "a": "(end of transcript)", "b": f"extra case {extra[0]}"}
    return n, ncases, skipped, None


def extract_case(transcript, case_id, upto_line=None):
    """the lines of one case (header .. failing line), for the replay file"""
    lines, cur, n, pline = [], None, 0, None
    with open(transcript) as f:
        for raw in f:
            n += 1
            s = raw.rstrip("\n")
            if s.startswith("P "):
                pline = s
            if s.startswith("C "):
                cur = s.split()[1]
                if cur == str(case_id):
                    lines = [s]
                continue
            if cur == str(case_id):
                if s == "E":
                    break
                lines.append(s)
                if upto_line is not None and n >= upto_line:
                    break
    if pline:
        lines.insert(0, pline)
    lines.append("E")
    return lines


def load_known():
    findings, fixed = [], []
    if os.path.exists(KNOWN):
        for line in open(KNOWN):
            line = line.strip()
            if line.startswith("finding:"):
                m = re.match(r"finding:\s+property=(\S+)\s+key=(\S+)\s*(.*)", line)
                if m:
                    findings.append({"property": m.group(1), "key": m.group(2), "text": m.group(3)})
            elif line.startswith("fixed:"):
                fixed.append(line)
    return findings, fixed


class Check:
    def __init__(self, prop, tier, seed):
        self.prop, self.tier, self.seed = prop, tier, seed
        self.t0 = time.time()
        self.violations = []      # (signature, replay path, text)
        self.known_hits = {}      # key -> text
        self.coverage = {"samples": [], "suites": {}, "programs": 0, "disagreements_checked": 0}
        self.assumptions = []
        self.known, self.fixed = load_known()
        os.makedirs(REPLAYS, exist_ok=True)
        os.makedirs(EVIDENCE, exist_ok=True)

    # -- proof side ---------------------------------------------------------
    def proofs(self, thorough_checker=True):
        r = lean_check(self.prop)
        self.lean = r
        cov = self.coverage
        cov["obligations"] = max(len(r["theorems"]), 1) if r["ok"] else max(len(r["theorems"]) + len(r["bad"]), 1)
        cov["discharged"] = len(r["theorems"]) if r["ok"] else 0
        cov["checker_cmd"] = f"cd /verif/lean && lake build YataProps.{self.prop} && lake env lean YataProps/{self.prop}.lean  (axiom audit by tools/checklib.py)"
        cov["theorems"] = r["theorems"]
        cov["lean_wall_s"] = round(r["wall"], 1)
        if r["ok"] and self.tier == "thorough" and thorough_checker:
            ok, out, w = leanchecker(self.prop)
            cov["leanchecker"] = {"ok": ok, "wall_s": round(w, 1)}
            if not ok:
                r["ok"] = False
                r["bad"].append("leanchecker rejected the module: " + out[-500:])
        return r["ok"]

    # -- correspondence side ------------------------------------------------
    def add_suite(self, res, signature_fn, known_class_fn=None, only=None):
        """fold one suite result into coverage; turn mismatches into violations / known findings.
           only: predicate selecting the disagreements that concern this property (the others belong to a
           sibling property checked from the same transcript)"""
        if only is not None and not res.get("error"):
            other = [mm for mm in res["mismatches"] if not only(mm)]
            res = dict(res, mismatches=[mm for mm in res["mismatches"] if only(mm)])
            self.coverage.setdefault("disagreements_of_sibling_properties", 0)
            self.coverage["disagreements_of_sibling_properties"] += len(other)
        cov = self.coverage
        name = res["suite"] + (":" + res.get("tag", "") if res.get("tag") else "")
        cov["suites"][name] = {
            "stats": res.get("stats", {}), "driver": res.get("summary", {}),
            "wall_s": round(res.get("wall_harness", 0) + res.get("wall_driver", 0), 1),
        }
        cov["programs"] += int(res.get("summary", {}).get("cases", 0))
        cov["disagreements_checked"] += int(res.get("summary", {}).get("ops", 0))
        for s in res.get("samples", [])[:3]:
            if len(cov["samples"]) < 12:
                cov["samples"].append(s)
        if res.get("error"):
            self.violations.append(("machinery:" + res["suite"], self.write_replay(
                f"machinery-{res['suite']}", [f"# {res['error']}"]), res["error"]))
            return
        seen_cases = set()
        seen_sigs = {v[0] for v in self.violations}
        for mm in res["mismatches"]:
            sig = signature_fn(mm)
            known = [k for k in self.known if k["property"] == self.prop and k["key"] == sig]
            if known:
                self.known_hits.setdefault(sig, known[0]["text"] or mm["raw"])
                continue
            cid = mm.get("case", "?")
            self.coverage.setdefault("violation_signatures", {})
            self.coverage["violation_signatures"][sig] = self.coverage["violation_signatures"].get(sig, 0) + 1
            if sig in seen_sigs or (cid, sig) in seen_cases:
                continue
            seen_cases.add((cid, sig))
            seen_sigs.add(sig)
            if len(self.violations) >= 25:
                continue
            upto = int(mm["line"]) if mm.get("line", "").isdigit() else None
            lines = extract_case(mm.get("transcript", res["transcript"]), cid, upto)
            if mm.get("comp") in ("action", "candle", "text"):
                # stateless components: the failing operation alone is the replay
                lines = [l for l in lines if l.startswith(("P ", "C "))] + [lines[-2], "E"]
            sigtag = re.sub(r"[^A-Za-z0-9_.-]+", "_", sig)[:60]
            path = self.write_replay(f"{res['suite']}-case{cid}-{sigtag}", [
                f"# property {self.prop}: disagreement between /repo and the Lean model/spec",
                f"# {mm['raw']}",
                f"# signature {sig}",
                f"# suite {res['suite']} seed {self.seed} tier {self.tier} extra {' '.join(res.get('extra', []))}",
                f"# replay: ./check {self.prop} --replay <this file>"] + lines)
            self.violations.append((sig, path, mm["raw"]))

    def write_replay(self, tag, lines):
        path = os.path.join(REPLAYS, f"{self.prop}-{self.seed}-{tag}.txt")
        with open(path, "w") as f:
            f.write("\n".join(lines) + "\n")
        return path

    def proof_broken(self):
        """the proof obligation no longer checks and no failing input was found"""
        bad = self.lean["bad"]
        path = self.write_replay("proof", [
            f"# property {self.prop}: Lean obligations no longer check; no failing input found by the correspondence run",
            f"# module YataProps.{self.prop}"] + ["# " + b.replace("\n", " ")[:400] for b in bad])
        return path

    # -- finish -------------------------------------------------------------
    def finish(self, level="proof", trusted=None, rule=None, exhaustive=None, extra=None):
        cov = self.coverage
        if trusted is not None:
            cov["trusted_base"] = trusted
        if rule:
            cov["rule"] = rule
        if exhaustive is not None:
            cov["exhaustive"] = exhaustive
        if extra:
            cov.update(extra)
        if not cov["samples"]:
            cov["samples"] = ["(no samples recorded)"]
        cov["known_findings_hit"] = sorted(self.known_hits)
        # disk: the replays have been written; large transcripts of this check are not needed any more
        try:
            for fn in os.listdir(WORK):
                fp = os.path.join(WORK, fn)
                if fn.startswith(self.prop + "-") and os.path.isfile(fp) and (os.path.getsize(fp) > 50_000_000 or ".tr.part" in fn):
                    os.remove(fp)
        except OSError:
            pass
        out_lines = []
        for sig, text in sorted(self.known_hits.items()):
            out_lines.append(f"KNOWN-FINDING: property={self.prop} {sig} {text}")
        rc = 0
        proof_ok = getattr(self, "lean", {"ok": True})["ok"]
        if self.violations:
            rc = 1
            for sig, path, text in self.violations:
                out_lines.append(f"VIOLATION property={self.prop} replay={path}")
        elif not proof_ok:
            rc = 1
            path = self.proof_broken()
            out_lines.append(f"VIOLATION property={self.prop} replay={path} no-failing-input-found")
        ev = {
            "property_id": self.prop, "tier": self.tier, "seed": self.seed, "level": level,
            "coverage": cov, "assumptions": self.assumptions,
            "wall_s": round(time.time() - self.t0, 1),
            "violations": len(self.violations) + (0 if proof_ok else 1),
        }
        with open(os.path.join(EVIDENCE, f"{self.prop}.json"), "w") as f:
            json.dump(ev, f, indent=1, sort_keys=True)
        for l in out_lines:
            print(l)
        s = cov.get("obligations", 0), cov.get("discharged", 0), cov["programs"], cov["disagreements_checked"]
        print(f"[{self.prop}] tier={self.tier} seed={self.seed} theorems={s[1]}/{s[0]} programs={s[2]} "
              f"ops_compared={s[3]} violations={ev['violations']} known={len(self.known_hits)} "
              f"wall={ev['wall_s']}s")
        return rc
