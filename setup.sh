#!/bin/sh
# Build the framework from files on disk only (offline): translator tables, Lean model/proofs/driver,
# Rust harness for every feature set the checks use.
set -e
cd "$(dirname "$0")"
export CARGO_NET_OFFLINE=true
python3 tools/extract.py /repo > /dev/null
(cd lean && lake build 2>&1 | tail -3)
cd harness
cargo build --offline --target-dir target-default 2>&1 | tail -1
cargo build --offline --release --target-dir target-default-rel 2>&1 | tail -1
for f in unsafe_performance period_type_u16 period_type_u32 period_type_u64 value_type_f32; do
  cargo build --offline --target-dir target-$f --features $f 2>&1 | tail -1
done
cd ..
mkdir -p work replays evidence
echo "setup done"
