#!/bin/sh
# Build the framework from files on disk only (offline): Lean model/proofs/driver, Rust harness.
set -e
cd "$(dirname "$0")"
export CARGO_NET_OFFLINE=true
(cd lean && lake build 2>&1 | tail -3)
(cd harness && cargo build --offline --target-dir target-default 2>&1 | tail -2)
mkdir -p work replays evidence
echo "setup done"
