//! C18: candle helper identities on `Candle`, tuples and arrays; textual forms of `Source` and `MA`.
use crate::methods::vtok;
use crate::rng::Rng;
use crate::util::*;
use std::convert::TryFrom;
use std::str::FromStr;
use yata::core::{Candle, Source, ValueType, OHLCV};
use yata::helpers::MA;

type V = ValueType;

const SOURCES: [Source; 8] = [
	Source::Close, Source::Open, Source::High, Source::Low, Source::HL2, Source::TP, Source::Volume, Source::VolumedPrice,
];

fn hexs(s: &str) -> String {
	if s.is_empty() {
		return "-".into();
	}
	s.bytes().map(|b| format!("{:02x}", b)).collect()
}

fn unhex(s: &str) -> String {
	if s == "-" {
		return String::new();
	}
	let bytes: Vec<u8> = (0..s.len() / 2).map(|i| u8::from_str_radix(&s[2 * i..2 * i + 2], 16).unwrap()).collect();
	String::from_utf8(bytes).unwrap()
}

fn all_obs<T: OHLCV>(c: &T, p: V) -> String {
	let mut v = vec![
		vtok(c.tp()), vtok(c.hl2()), vtok(c.ohlc4()), vtok(c.clv()), vtok(c.volumed_price()), vtok(c.tr_close(p)),
		format!("i{}", c.validate() as u8), format!("i{}", c.is_rising() as u8), format!("i{}", c.is_falling() as u8),
	];
	for s in SOURCES {
		v.push(vtok(c.source(s)));
	}
	v.join(" ")
}

fn cand(f: &[f64]) -> Candle {
	Candle { open: f[0] as V, high: f[1] as V, low: f[2] as V, close: f[3] as V, volume: f[4] as V }
}

fn ctoks(c: &Candle) -> String {
	format!("{} {} {} {} {}", vtok(c.open), vtok(c.high), vtok(c.low), vtok(c.close), vtok(c.volume))
}

pub fn ohlcv_line(out: &mut Out, f: &[f64]) {
	let c = cand(f);
	let p = f[5] as V;
	let a = guard(|| all_obs(&c, p));
	let t = guard(|| all_obs(&(c.open, c.high, c.low, c.close, c.volume), p));
	let r = guard(|| all_obs(&[c.open, c.high, c.low, c.close, c.volume], p));
	// tr against a previous candle object, and the conversions
	let prev = Candle { close: p, ..c };
	let tr2 = guard(|| vtok(c.tr(&prev)));
	let conv = guard(|| {
		let c5: Candle = (c.open, c.high, c.low, c.close, c.volume).into();
		let c4: Candle = (c.open, c.high, c.low, c.close).into();
		let cd: Candle = Candle::from(&c);
		(c5 == c && cd == c && c4.volume.is_nan() && c4.open.to_bits() == c.open.to_bits()) as u8
	});
	let same = (a == t && a == r) as u8;
	out.line(&format!(
		"ohlcv {} {} ; {} ; same=i{} tr2={} conv=i{}",
		ctoks(&c),
		vtok(p),
		a.unwrap_or_else(|| "P".into()),
		same,
		tr2.unwrap_or_else(|| "P".into()),
		conv.unwrap_or(9),
	));
	out.count("ohlcv");
}

pub fn add_line(out: &mut Out, f: &[f64]) {
	let (a, b, c) = (cand(&f[0..5]), cand(&f[5..10]), cand(&f[10..15]));
	let l = guard(|| (a + b) + c);
	let r = guard(|| a + (b + c));
	let ab = guard(|| a + b);
	match (l, r, ab) {
		(Some(l), Some(r), Some(ab)) => out.line(&format!("add {} {} {} ; {} ; {} ; {}", ctoks(&a), ctoks(&b), ctoks(&c), ctoks(&ab), ctoks(&l), ctoks(&r))),
		_ => out.line(&format!("add {} {} {} ; P", ctoks(&a), ctoks(&b), ctoks(&c))),
	}
	out.count("add");
}

fn src_idx(s: Source) -> usize {
	SOURCES.iter().position(|x| *x == s).unwrap()
}

pub fn src_line(out: &mut Out, text: &str) {
	let r = guard(|| Source::from_str(text));
	let r2 = guard(|| Source::try_from(text));
	let r3 = guard(|| Source::try_from(text.to_string()));
	let f = |r: Option<Result<Source, yata::core::Error>>| match r {
		None => "P".to_string(),
		Some(Ok(s)) => format!("ok:{}", src_idx(s)),
		Some(Err(e)) => format!("err:{}", crate::methods::err_kind(&e)),
	};
	out.line(&format!("src {} ; {} {} {}", hexs(text), f(r), f(r2), f(r3)));
	out.count("src");
}

pub fn ma_line(out: &mut Out, text: &str) {
	let r = guard(|| MA::from_str(text));
	let s = match r {
		None => "P".to_string(),
		Some(Ok(m)) => {
			use yata::core::MovingAverageConstructor;
			format!("ok:{}:{}", m.ma_type(), m.ma_period())
		}
		Some(Err(e)) => format!("err:{}", crate::methods::err_kind(&e)),
	};
	out.line(&format!("ma {} ; {}", hexs(text), s));
	out.count("ma");
}

fn field(rng: &mut Rng, base: f64) -> f64 {
	match rng.below(40) {
		0 => f64::NAN,
		1 => f64::INFINITY,
		2 => f64::NEG_INFINITY,
		3 => 0.0,
		4 => -0.0,
		5 => -base,
		6 => 5e-324,
		7 => 1e300,
		_ => base,
	}
}

pub fn suite(out: &mut Out, seed: u64, thorough: bool) {
	let mut rng = Rng::new(seed);
	out.line("C 0 candle");
	let n = if thorough { 200_000 } else { 20_000 };
	for i in 0..n {
		// a mostly-valid candle, then perturbed into every kind of invalidity
		let scale = *rng.pick(&[1e-6, 1.0, 100.0, 1e7]);
		let lo = scale * (1.0 + rng.unit());
		let hi = lo + scale * rng.unit() * *rng.pick(&[0.0, 0.1, 1.0]);
		let pickin = |r: &mut Rng| match r.below(4) {
			0 => lo,
			1 => hi,
			_ => lo + (hi - lo) * r.unit(),
		};
		let mut o = pickin(&mut rng);
		let mut c = pickin(&mut rng);
		let (mut h, mut l) = (hi, lo);
		let mut v = *rng.pick(&[0.0, 1.0, 1234.5, 1e9]) * rng.unit();
		if i % 3 == 0 {
			// malformed stream: out-of-order or special fields
			match rng.below(8) {
				0 => o = h + scale * rng.unit(),
				1 => o = l - l * rng.unit() * 0.5,
				2 => c = h + scale * rng.unit(),
				3 => c = l - l * 0.5 * rng.unit(),
				4 => std::mem::swap(&mut h, &mut l),
				5 => v = -v - 1.0,
				6 => v = f64::NAN,
				_ => {}
			}
			if rng.chance(1, 2) {
				o = field(&mut rng, o);
				h = field(&mut rng, h);
				l = field(&mut rng, l);
				c = field(&mut rng, c);
				v = field(&mut rng, v);
			}
		}
		let p = match rng.below(5) {
			0 => h + scale * rng.unit(),
			1 => l * rng.unit(),
			2 => h,
			3 => l,
			_ => lo + (hi - lo) * rng.unit(),
		};
		// ranges of a few ulps and of absolute size below machine epsilon (zero-range guards must be exact)
		if i % 17 == 5 {
			let k = 1 + rng.below(3);
			let base = *rng.pick(&[1e-16, 0.5, 1.0, 123.456, 1e9]);
			l = base;
			h = f64::from_bits(base.to_bits() + k);
			if rng.chance(1, 3) {
				l = *rng.pick(&[1e-16, 1e-300, 3e-17]);
				h = l * 2.0;
			}
			o = if rng.chance(1, 2) { l } else { h };
			c = if rng.chance(1, 2) { l } else { h };
		}
		let f = [o, h, l, c, v, p];
		if i < 3 {
			out.sample(format!("ohlcv {:?}", f));
		}
		ohlcv_line(out, &f);
	}
	for _ in 0..(n / 10) {
		let mut f = Vec::new();
		for _ in 0..3 {
			let lo = 1.0 + 100.0 * rng.unit();
			let hi = lo + 5.0 * rng.unit();
			f.extend([lo + (hi - lo) * rng.unit(), hi, lo, lo + (hi - lo) * rng.unit(), 1000.0 * rng.unit()]);
		}
		add_line(out, &f);
	}
	// aggregation with special fields (NaN / infinities / signed zeros in any position): `+` must stay associative on the
	// prices (max / min / first open / last close are exact) — Rust-vs-Rust, the rational model has no such values
	for _ in 0..(n / 10) {
		let mut f = Vec::new();
		for _ in 0..3 {
			let lo = 1.0 + 100.0 * rng.unit();
			let hi = lo + 5.0 * rng.unit();
			let mut c = [lo + (hi - lo) * rng.unit(), hi, lo, lo + (hi - lo) * rng.unit(), 1000.0 * rng.unit()];
			for x in c.iter_mut() {
				if rng.chance(1, 3) {
					*x = field(&mut rng, *x);
					if rng.chance(1, 2) && !x.is_finite() {
						*x = f64::NAN;
					}
				}
			}
			f.extend(c);
		}
		add_line(out, &f);
	}
	// texts
	let names = ["close", "open", "high", "low", "hl2", "tp", "hlc3", "volume", "volumed_price"];
	for nm in names {
		for variant in [nm.to_string(), nm.to_uppercase(), format!("  {} ", nm), format!("\t{}\n", nm), format!("{}x", nm), format!("\u{a0}{}\u{2003}", nm), format!("{} {}", nm, nm)] {
			src_line(out, &variant);
		}
		let mut chars: Vec<char> = nm.chars().collect();
		let k = rng.below(chars.len() as u64) as usize;
		chars[k] = chars[k].to_ascii_uppercase();
		src_line(out, &chars.iter().collect::<String>());
	}
	for t in ["", " ", "clos", "closee", "tp3", "hl-2", "volumedprice", "volumed price", "ĸlose", "CLOSE\u{0}", "Ｃlose"] {
		src_line(out, t);
	}
	for s in SOURCES {
		let a: &'static str = s.into();
		let b: String = s.into();
		out.line(&format!("srcstr {} ; {} {}", src_idx(s), hexs(a), hexs(&b)));
		// round trip
		src_line(out, a);
	}
	let kinds = ["sma", "wma", "hma", "rma", "ema", "dma", "dema", "tma", "tema", "wsma", "smm", "swma", "trima", "linreg", "vidya"];
	let max = gen_max();
	for k in kinds {
		let mut ns: Vec<u64> = if max <= 255 { (0..=256).collect() } else { vec![0, 1, 2, 254, 255, 256, 65535, 65536, max - 1, max] };
		ns.push(max.wrapping_add(1));
		for n in ns {
			ma_line(out, &format!("{}-{}", k, n));
		}
		for t in [
			format!("{}", k), format!("{}-", k), format!("{}--5", k), format!("{}-+5", k), format!("{}- 5", k), format!("{}-5 ", k),
			format!(" {}-5", k), format!("{}-05", k), format!("{}-5-3", k), format!("{}-0x5", k), format!("{}-5.0", k),
			format!("{}_5", k), format!("{}-٥", k), format!("{}-1e2", k), k.to_uppercase() + "-5", format!("{}-99999999999999999999999", k),
		] {
			ma_line(out, &t);
		}
	}
	for t in ["", "-", "-5", "5", "lin_reg-5", "ema-5\n", "xma-5", "s-ma-5"] {
		ma_line(out, t);
	}
	let nr = if thorough { 20000 } else { 2000 };
	let alphabet: Vec<char> = "smawehdtrilngvy-0123456789+ _.\u{a0}X".chars().collect();
	for _ in 0..nr {
		let len = rng.below(9) as usize;
		let s: String = (0..len).map(|_| *rng.pick(&alphabet)).collect();
		ma_line(out, &s);
		src_line(out, &s);
	}
	out.line("E");
}

pub fn replay_case(out: &mut Out, id: u64, lines: &[String]) {
	out.line(&format!("C {} candle", id));
	for l in &lines[1..] {
		let t = op_tokens(l);
		if t.is_empty() {
			continue;
		}
		let fl = |ts: &[String]| -> Vec<f64> { ts.iter().map(|s| parse_fbits(s.trim_start_matches('f'))).collect() };
		match t[0].as_str() {
			"ohlcv" => ohlcv_line(out, &fl(&t[1..7])),
			"add" => add_line(out, &fl(&t[1..16])),
			"src" => src_line(out, &unhex(&t[1])),
			"ma" => ma_line(out, &unhex(&t[1])),
			_ => {}
		}
	}
	out.line("E");
}
