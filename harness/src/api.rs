//! C09: every evaluation route of the public API against element-by-element `next`
//! (Rust-vs-Rust, bit-identical), clone independence, determinism, `peek`.
use crate::gen;
use crate::methods::{OutTok, V};
use crate::rng::Rng;
use crate::util::*;
use yata::core::{Candle, Error, Method, PeriodType, Sequence};
use yata::helpers::{Buffered, Peekable};
use yata::methods::*;

fn toks<O: OutTok>(v: &[O]) -> Vec<String> {
	v.iter().map(|o| o.toks()).collect()
}

fn flag(out: &mut Out, name: &str, what: &str, ok: bool, detail: String) {
	out.line(&format!("F {} {} ; ok=i{} {}", name, what, ok as u8, if ok { String::new() } else { detail }));
	out.count(&format!("route:{}", what));
}

fn first_diff(a: &[String], b: &[String]) -> String {
	if a.len() != b.len() {
		return format!("len {} vs {}", a.len(), b.len());
	}
	for i in 0..a.len() {
		if a[i] != b[i] {
			return format!("first difference at {}: {} vs {}", i, a[i], b[i]);
		}
	}
	"equal".into()
}

/// all routes for a method with a sized, clonable input
fn api_check<M>(out: &mut Out, rng: &mut Rng, name: &str, params: M::Params, xs: &[M::Input])
where
	M: Method + Clone + 'static,
	M::Params: Clone,
	M::Input: Sized + Clone + 'static,
	M::Output: OutTok + Clone + std::fmt::Debug,
{
	let mk = || M::new(params.clone(), &xs[0]);
	let mut base_m = match guard(mk) {
		Some(Ok(m)) => m,
		_ => {
			flag(out, name, "construct", true, String::new());
			return;
		}
	};
	let base: Vec<String> = xs.iter().map(|x| base_m.next(x).toks()).collect();
	let eq = |out: &mut Out, what: &str, got: Option<Vec<String>>| match got {
		Some(g) => {
			let ok = g == base;
			flag(out, name, what, ok, first_diff(&g, &base))
		}
		None => flag(out, name, what, false, "panicked".into()),
	};
	// determinism
	eq(out, "determinism", guard(|| {
		let mut m = mk().ok().unwrap();
		xs.iter().map(|x| m.next(x).toks()).collect()
	}));
	// closures
	eq(out, "into_fn", guard(|| {
		let m = mk().ok().unwrap();
		let xs2: Vec<M::Input> = xs.to_vec();
		let leaked: &'static [M::Input] = Box::leak(xs2.into_boxed_slice());
		let mut f = m.into_fn();
		leaked.iter().map(|x| f(x).toks()).collect()
	}));
	eq(out, "new_fn", guard(|| {
		let xs2: Vec<M::Input> = xs.to_vec();
		let leaked: &'static [M::Input] = Box::leak(xs2.into_boxed_slice());
		let mut f = M::new_fn(params.clone(), &leaked[0]).ok().unwrap();
		leaked.iter().map(|x| f(x).toks()).collect()
	}));
	// history wrapper
	match guard(|| {
		let mut w = M::with_history(params.clone(), &xs[0]).ok().unwrap();
		let outs: Vec<String> = xs.iter().map(|x| w.next(x).toks()).collect();
		let n = outs.len();
		let mut ok = true;
		for i in 0..n.min(40) {
			ok &= w.get(i).map(|o| o.toks()) == Some(outs[n - 1 - i].clone());
			ok &= Buffered::get(&w, i).map(|o| o.toks()) == Some(outs[n - 1 - i].clone());
		}
		ok &= w.get(n).is_none() && w.get(n + 7).is_none();
		let it: Vec<String> = w.iter().map(|o| o.toks()).collect();
		ok &= it == outs;
		let it2: Vec<String> = (&w).into_iter().map(|o| o.toks()).collect();
		ok &= it2 == outs;
		(outs, ok)
	}) {
		Some((outs, ok)) => {
			let d = first_diff(&outs, &base);
			flag(out, name, "with_history", outs == base, d);
			flag(out, name, "with_history_get", ok, "get/iter disagree with the outputs".into());
		}
		None => flag(out, name, "with_history", false, "panicked".into()),
	}
	// last-value wrapper: new() feeds the initial value once
	match guard(|| {
		let mut w = M::with_last_value(params.clone(), &xs[0]).ok().unwrap();
		let mut plain = mk().ok().unwrap();
		let first = plain.next(&xs[0]).toks();
		let mut ok = w.peek().toks() == first;
		let mut same = true;
		for x in xs {
			let a = w.next(x).toks();
			let b = plain.next(x).toks();
			same &= a == b;
			ok &= w.peek().toks() == a;
		}
		(same, ok)
	}) {
		Some((same, ok)) => {
			flag(out, name, "with_last_value", same, "differs from the plain instance fed one extra leading initial value".into());
			flag(out, name, "with_last_value_peek", ok, "peek is not the last output".into());
		}
		None => flag(out, name, "with_last_value", false, "panicked".into()),
	}
	// clone independence at a random point
	match guard(|| {
		let k = rng.below(xs.len() as u64) as usize;
		let mut orig = mk().ok().unwrap();
		let mut res: Vec<String> = xs[..k].iter().map(|x| orig.next(x).toks()).collect();
		let mut cl = orig.clone();
		// disturb the original: feed the rest in reverse order and some repeats
		for x in xs[k..].iter().rev() {
			orig.next(x);
			orig.next(&xs[0]);
		}
		res.extend(xs[k..].iter().map(|x| cl.next(x).toks()));
		// and the other way round: a clone that races ahead must not disturb its source
		let mut src = mk().ok().unwrap();
		let mut res2: Vec<String> = xs[..k].iter().map(|x| src.next(x).toks()).collect();
		let mut ahead = src.clone();
		for x in xs.iter().rev() {
			ahead.next(x);
		}
		res2.extend(xs[k..].iter().map(|x| src.next(x).toks()));
		(res, res2)
	}) {
		Some((a, b)) => {
			let d = first_diff(&a, &base);
			flag(out, name, "clone_continues", a == base, d);
			let d = first_diff(&b, &base);
			flag(out, name, "clone_source_undisturbed", b == base, d);
		}
		None => flag(out, name, "clone", false, "panicked".into()),
	}
	// `clone_from` (the other entry point of Clone) into instances with a different past: plain instance and both wrappers
	match guard(|| {
		let k = rng.below(xs.len() as u64) as usize;
		let mut a = mk().ok().unwrap();
		for x in &xs[..k] {
			a.next(x);
		}
		let mut b = mk().ok().unwrap();
		for x in xs.iter().rev() {
			b.next(x);
		}
		b.clone_from(&a);
		let plain: Vec<String> = xs[k..].iter().map(|x| b.next(x).toks()).collect();
		let mut ha = M::with_history(params.clone(), &xs[0]).ok().unwrap();
		for x in &xs[..k] {
			ha.next(x);
		}
		let mut hb = M::with_history(params.clone(), &xs[0]).ok().unwrap();
		for x in xs.iter().rev() {
			hb.next(x);
		}
		hb.clone_from(&ha);
		let hist: Vec<String> = xs[k..].iter().map(|x| hb.next(x).toks()).collect();
		let hist_len_ok = hb.iter().count() == xs.len();
		let mut la = M::with_last_value(params.clone(), &xs[0]).ok().unwrap();
		let mut plain2 = mk().ok().unwrap();
		plain2.next(&xs[0]);
		for x in &xs[..k] {
			la.next(x);
			plain2.next(x);
		}
		let mut lb = M::with_last_value(params.clone(), &xs[0]).ok().unwrap();
		for x in xs.iter().rev() {
			lb.next(x);
		}
		lb.clone_from(&la);
		let last: Vec<String> = xs[k..].iter().map(|x| lb.next(x).toks()).collect();
		let last_ref: Vec<String> = xs[k..].iter().map(|x| plain2.next(x).toks()).collect();
		(k, plain, hist, hist_len_ok, last, last_ref)
	}) {
		Some((k, plain, hist, hist_len_ok, last, last_ref)) => {
			flag(out, name, "clone_from_continues", plain[..] == base[k..], first_diff(&plain, &base[k..].to_vec()));
			flag(out, name, "with_history_clone_from", hist[..] == base[k..] && hist_len_ok, first_diff(&hist, &base[k..].to_vec()));
			flag(out, name, "with_last_value_clone_from", last == last_ref, first_diff(&last, &last_ref));
		}
		None => flag(out, name, "clone_from", false, "panicked".into()),
	}
}

/// `Buffered::get` of SMA (its window of inputs) and TRIMA (the window of the inner average's outputs): index `i` is the
/// `i`-th newest element, anything at or beyond the length is `None` — also for indices that do not fit PeriodType
fn buffered_check(out: &mut Out, len: PeriodType, xs: &[V]) {
	let r = guard(|| {
		let mut sma = SMA::new(len, &xs[0]).ok().unwrap();
		let mut trima = TRIMA::new(len, &xs[0]).ok().unwrap();
		let mut inner = SMA::new(len, &xs[0]).ok().unwrap();
		let mut ins: Vec<V> = vec![xs[0]; len as usize];
		let mut inner_outs: Vec<V> = vec![xs[0]; len as usize];
		for x in xs {
			sma.next(x);
			trima.next(x);
			ins.push(*x);
			inner_outs.push(inner.next(x));
		}
		let n = len as usize;
		let mut ok = true;
		let mut ok_t = true;
		for i in 0..n {
			ok &= Buffered::get(&sma, i).map(|v| v.to_bits()) == Some(ins[ins.len() - 1 - i].to_bits());
			ok_t &= Buffered::get(&trima, i).map(|v| v.to_bits()) == Some(inner_outs[inner_outs.len() - 1 - i].to_bits());
		}
		let big = [n, n + 1, 254, 255, 256, 257, 256 + n.saturating_sub(1), 300, 511, 512, 65535, 65536, 65536 + 3, 1 << 32, usize::MAX];
		let mut none = true;
		for &i in big.iter().filter(|&&i| i >= n) {
			none &= Buffered::get(&sma, i).is_none() && Buffered::get(&trima, i).is_none();
		}
		(ok, ok_t, none)
	});
	match r {
		Some((ok, ok_t, none)) => {
			flag(out, "sma", "buffered_get", ok, "SMA::get(i) is not the i-th newest input".into());
			flag(out, "trima", "buffered_get", ok_t, "TRIMA::get(i) is not the i-th newest inner average".into());
			flag(out, "sma", "buffered_get_out_of_range", none, "get(index >= length) returned Some".into());
		}
		None => flag(out, "sma", "buffered_get", false, "panicked".into()),
	}
}

/// routes that need `Sequence` (implemented by the crate for ValueType and OHLCV slices only)
fn seq_check<M>(out: &mut Out, rng: &mut Rng, name: &str, params: M::Params, xs: &[M::Input])
where
	M: Method + Clone + 'static,
	M::Params: Clone,
	M::Input: Sized + Clone + 'static,
	M::Output: OutTok + Clone + std::fmt::Debug,
	for<'a> &'a [M::Input]: Sequence<M::Input>,
	Vec<M::Input>: Sequence<M::Input>,
{
	let mk = || M::new(params.clone(), &xs[0]);
	let mut base_m = match guard(mk) {
		Some(Ok(m)) => m,
		_ => return,
	};
	let base: Vec<String> = xs.iter().map(|x| base_m.next(x).toks()).collect();
	let eq = |out: &mut Out, what: &str, got: Option<Vec<String>>| match got {
		Some(g) => {
			let ok = g == base;
			flag(out, name, what, ok, first_diff(&g, &base))
		}
		None => flag(out, name, what, false, "panicked".into()),
	};
	// over / call
	eq(out, "over", guard(|| toks(&mk().ok().unwrap().over(xs))));
	eq(out, "over_vec", guard(|| toks(&mk().ok().unwrap().over(xs.to_vec()))));
	eq(out, "call", guard(|| {
		let mut m = mk().ok().unwrap();
		toks(&xs.call(&mut m))
	}));
	// chunked, including empty chunks
	eq(out, "chunked", guard(|| {
		let mut m = mk().ok().unwrap();
		let mut res = Vec::new();
		let mut i = 0;
		while i < xs.len() {
			let k = (rng.below(9) as usize).min(xs.len() - i);
			res.extend(toks(&m.over(&xs[i..i + k])));
			if rng.chance(1, 4) {
				let e: &[M::Input] = &[];
				let r = m.over(e);
				assert!(r.is_empty());
			}
			i += k;
		}
		res
	}));
	// new_over, also on the empty sequence
	eq(out, "new_over", guard(|| toks(&M::new_over(params.clone(), xs).ok().unwrap())));
	{
		let e: &[M::Input] = &[];
		let r = guard(|| M::new_over(params.clone(), e));
		let ok = matches!(r, Some(Ok(ref v)) if v.is_empty());
		flag(out, name, "new_over_empty", ok, "new_over on an empty sequence is not Ok([])".into());
	}
}

/// C13: snapshot after every one of the first steps (every ring phase), JSON round trip, then the
/// original and the restored instance must stay bit-identical
fn snapshot_check<M>(out: &mut Out, name: &str, params: M::Params, xs: &[M::Input])
where
	M: Method + Clone + serde::Serialize + serde::de::DeserializeOwned,
	M::Params: Clone,
	M::Input: Sized,
	M::Output: OutTok,
{
	let mut m = match guard(|| M::new(params.clone(), &xs[0])) {
		Some(Ok(m)) => m,
		_ => return,
	};
	let mut bad: Option<String> = None;
	let points = xs.len().min(2 * 40 + 3);
	for k in 0..points {
		let nonfinite = crate::flat::flatten(&m).iter().any(|t| t.starts_with('f') && !parse_fbits(&t[1..]).is_finite());
		if !nonfinite {
			let js = serde_json::to_string(&m).unwrap();
			match guard(|| serde_json::from_str::<M>(&js)) {
				Some(Ok(mut restored)) => {
					let mut orig = m.clone();
					for x in &xs[k..] {
						let a = orig.next(x).toks();
						let b = restored.next(x).toks();
						if a != b {
							bad = Some(format!("snapshot after {} steps diverges: {} vs {}", k, a, b));
							break;
						}
					}
				}
				Some(Err(e)) => bad = Some(format!("snapshot after {} steps rejected: {} json={}", k, e, &js[..js.len().min(120)])),
				None => bad = Some(format!("deserialization panicked after {} steps", k)),
			}
		}
		if bad.is_some() {
			break;
		}
		m.next(&xs[k]);
	}
	flag(out, name, "snapshot", bad.is_none(), bad.unwrap_or_default());
}

/// C08 on the real code: constant input gives constant output (exactly for non-float outputs, within a
/// tolerance that does not grow for floats); extra leading copies of the first input change nothing
fn constant_check<M>(out: &mut Out, rng: &mut Rng, name: &str, params: M::Params, xs: &[M::Input], exact: bool, scale: f64)
where
	M: Method,
	M::Params: Clone,
	M::Input: Sized + Clone,
	M::Output: OutTok,
{
	let close = |a: &str, b: &str| -> bool {
		if a == b {
			return true;
		}
		if exact {
			return false;
		}
		let (ta, tb): (Vec<&str>, Vec<&str>) = (a.split(' ').collect(), b.split(' ').collect());
		ta.len() == tb.len()
			&& ta.iter().zip(tb.iter()).all(|(x, y)| {
				if x == y {
					return true;
				}
				if !(x.starts_with('f') && y.starts_with('f')) {
					return false;
				}
				let (p, q) = (parse_fbits(&x[1..]), parse_fbits(&y[1..]));
				p.is_finite() && q.is_finite() && (p - q).abs() <= 1e-9 * (scale + p.abs().max(q.abs()))
			})
	};
	let r = guard(|| {
		let mut m = M::new(params.clone(), &xs[0]).ok()?;
		let first = m.next(&xs[0]).toks();
		for t in 0..2000 {
			let o = m.next(&xs[0]).toks();
			if !close(&o, &first) {
				return Some(Some(format!("constant input: step {} gives {} instead of {}", t + 1, o, first)));
			}
		}
		Some(None)
	});
	match r {
		Some(Some(None)) => flag(out, name, "constant_input", true, String::new()),
		Some(Some(Some(d))) => flag(out, name, "constant_input", false, d),
		Some(None) => {}
		None => flag(out, name, "constant_input", false, "panicked".into()),
	}
	let extra = 1 + rng.below(300) as usize;
	let r = guard(|| {
		let mut a = M::new(params.clone(), &xs[0]).ok()?;
		let mut b = M::new(params.clone(), &xs[0]).ok()?;
		for _ in 0..extra {
			b.next(&xs[0]);
		}
		for (t, x) in xs.iter().enumerate() {
			let (p, q) = (a.next(x).toks(), b.next(x).toks());
			if !close(&p, &q) {
				return Some(Some(format!("{} extra leading copies change step {}: {} vs {}", extra, t, p, q)));
			}
		}
		Some(None)
	});
	match r {
		Some(Some(None)) => flag(out, name, "prefix_invariance", true, String::new()),
		Some(Some(Some(d))) => flag(out, name, "prefix_invariance", false, d),
		Some(None) => {}
		None => flag(out, name, "prefix_invariance", false, "panicked".into()),
	}
}

/// `apply`/`new_apply` exist only for Input == Output
fn apply_check<M>(out: &mut Out, name: &str, params: M::Params, xs: &[V])
where
	M: Method<Input = V, Output = V> + Clone,
	M::Params: Clone,
{
	let mut m = match guard(|| M::new(params.clone(), &xs[0])) {
		Some(Ok(m)) => m,
		_ => return,
	};
	let base: Vec<String> = xs.iter().map(|x| m.next(x).toks()).collect();
	let r = guard(|| {
		let mut m = M::new(params.clone(), &xs[0]).ok().unwrap();
		let mut v = xs.to_vec();
		m.apply(&mut v);
		toks(&v)
	});
	flag(out, name, "apply", r.as_ref() == Some(&base), r.map_or("panicked".into(), |g| first_diff(&g, &base)));
	let r = guard(|| {
		let mut v = xs.to_vec();
		M::new_apply(params.clone(), &mut v).ok().unwrap();
		toks(&v)
	});
	flag(out, name, "new_apply", r.as_ref() == Some(&base), r.map_or("panicked".into(), |g| first_diff(&g, &base)));
	let r = guard(|| {
		let mut v: Vec<V> = Vec::new();
		M::new_apply(params.clone(), &mut v).is_ok() && v.is_empty()
	});
	flag(out, name, "new_apply_empty", r == Some(true), "new_apply on an empty sequence".into());
}

/// `peek` right after every `next`
fn peek_check<M>(out: &mut Out, name: &str, params: M::Params, xs: &[M::Input])
where
	M: Method + Peekable<<M as Method>::Output>,
	M::Params: Clone,
	M::Input: Sized,
	M::Output: OutTok,
{
	let r = guard(|| {
		let mut m = M::new(params.clone(), &xs[0]).ok()?;
		for (i, x) in xs.iter().enumerate() {
			let o = m.next(x).toks();
			let p = m.peek().toks();
			let p2 = (&m).peek().toks();
			if o != p || o != p2 {
				return Some(format!("step {}: next returned {} but peek gives {}", i, o, p));
			}
		}
		None
	});
	match r {
		Some(None) => flag(out, name, "peek", true, String::new()),
		Some(Some(d)) => flag(out, name, "peek", false, d),
		None => flag(out, name, "peek", false, "panicked".into()),
	}
}

macro_rules! scalar_ma {
	($mode:expr, $out:expr, $rng:expr, $t:ty, $name:expr, $len:expr, $xs:expr) => {{
		match $mode {
			"snapshot" => snapshot_check::<$t>($out, $name, $len, $xs),
			"constant" => {
				let sc = $xs.iter().fold(0.0f64, |a, x| a.max((*x as f64).abs()));
				constant_check::<$t>($out, $rng, $name, $len, $xs, false, sc)
			}
			_ => {
				api_check::<$t>($out, $rng, $name, $len, $xs);
				seq_check::<$t>($out, $rng, $name, $len, $xs);
				apply_check::<$t>($out, $name, $len, $xs);
				peek_check::<$t>($out, $name, $len, $xs);
			}
		}
	}};
}

/// the non-MA methods: routes, or snapshot / constant depending on the mode
macro_rules! other {
	($mode:expr, $out:expr, $rng:expr, $t:ty, $name:expr, $par:expr, $xs:expr, $exact:expr, $scale:expr, seq) => {{
		match $mode {
			"snapshot" => snapshot_check::<$t>($out, $name, $par, $xs),
			"constant" => constant_check::<$t>($out, $rng, $name, $par, $xs, $exact, $scale),
			_ => {
				api_check::<$t>($out, $rng, $name, $par, $xs);
				seq_check::<$t>($out, $rng, $name, $par, $xs);
			}
		}
	}};
	($mode:expr, $out:expr, $rng:expr, $t:ty, $name:expr, $par:expr, $xs:expr, $exact:expr, $scale:expr, noseq) => {{
		match $mode {
			"snapshot" => snapshot_check::<$t>($out, $name, $par, $xs),
			"constant" => constant_check::<$t>($out, $rng, $name, $par, $xs, $exact, $scale),
			_ => api_check::<$t>($out, $rng, $name, $par, $xs),
		}
	}};
}

pub fn suite(out: &mut Out, seed: u64, thorough: bool, mode: &str) {
	let mut rng = Rng::new(seed);
	let max = gen_max();
	let lens: Vec<u64> = if thorough { vec![1, 2, 3, 4, 5, 7, 8, 13, 16, 31, 64, 127, 128, 200, 253, 254] } else { vec![1, 2, 3, 5, 14, 31, 254] };
	let mut id = 0u64;
	let mut deck = gen::Deck::values();
	let mut dr = rng.fork(7919);
	for &l in &lens {
		if l >= max {
			continue;
		}
		let len = l as PeriodType;
		for _rep in 0..(if thorough { 4 } else { 2 }) {
			let mut r = rng.fork(id);
			let class = deck.draw(&mut dr);
			let xs: Vec<V> = gen::stream(&mut r, 60 + 2 * l as usize, class).into_iter().map(|x| x as V).collect();
			out.line(&format!("C {} flags api_{} len={} class={}", id, mode, l, class));
			if id == 0 {
				out.sample(format!("api routes for every method, len={} class={} n={}", l, class, xs.len()));
			}
			let o = &mut *out;
			scalar_ma!(mode, o, &mut r, SMA, "sma", len, &xs);
			scalar_ma!(mode, o, &mut r, WMA, "wma", len, &xs);
			scalar_ma!(mode, o, &mut r, EMA, "ema", len, &xs);
			scalar_ma!(mode, o, &mut r, DMA, "dma", len, &xs);
			scalar_ma!(mode, o, &mut r, TMA, "tma", len, &xs);
			scalar_ma!(mode, o, &mut r, DEMA, "dema", len, &xs);
			scalar_ma!(mode, o, &mut r, TEMA, "tema", len, &xs);
			scalar_ma!(mode, o, &mut r, RMA, "rma", len, &xs);
			// cross-build runs: WSMA accepts lengths up to PeriodType::MAX / 2 only, so a length above 127 is accepted by the wide
			// builds and refused by the default one; the transcripts are compared line by line, so it is left out there
			if !(crate::util::is_compat() && l > 127) {
				scalar_ma!(mode, o, &mut r, WSMA, "wsma", len, &xs);
			}
			scalar_ma!(mode, o, &mut r, SWMA, "swma", len, &xs);
			scalar_ma!(mode, o, &mut r, TRIMA, "trima", len, &xs);
			scalar_ma!(mode, o, &mut r, HMA, "hma", len, &xs);
			scalar_ma!(mode, o, &mut r, LinReg, "linreg", len, &xs);
			scalar_ma!(mode, o, &mut r, Vidya, "vidya", len, &xs);
			scalar_ma!(mode, o, &mut r, SMM, "smm", len, &xs);
			scalar_ma!(mode, o, &mut r, Integral, "integral", len, &xs);
			scalar_ma!(mode, o, &mut r, StDev, "stdev", len, &xs);
			scalar_ma!(mode, o, &mut r, MeanAbsDev, "mad", len, &xs);
			scalar_ma!(mode, o, &mut r, MedianAbsDev, "medad", len, &xs);
			scalar_ma!(mode, o, &mut r, LinearVolatility, "linvol", len, &xs);
			scalar_ma!(mode, o, &mut r, Highest, "highest", len, &xs);
			scalar_ma!(mode, o, &mut r, Lowest, "lowest", len, &xs);
			scalar_ma!(mode, o, &mut r, HighestLowestDelta, "hldelta", len, &xs);
			scalar_ma!(mode, o, &mut r, Past<V>, "past", len, &xs);
			let sc = xs.iter().fold(0.0f64, |a, x| a.max((*x as f64).abs()));
			if mode == "snapshot" {
				// windowless (cumulative) variants hold an empty window
				snapshot_check::<Integral>(o, "integral0", 0 as PeriodType, &xs);
			}
			other!(mode, o, &mut r, Derivative, "derivative", len, &xs, false, sc, seq);
			other!(mode, o, &mut r, Momentum, "momentum", len, &xs, false, sc, seq);
			other!(mode, o, &mut r, RateOfChange, "roc", len, &xs, false, 1.0, seq);
			other!(mode, o, &mut r, CCI, "cci", len, &xs, false, 1.0, seq);
			other!(mode, o, &mut r, HighestIndex, "hindex", len, &xs, true, sc, seq);
			other!(mode, o, &mut r, LowestIndex, "lindex", len, &xs, true, sc, seq);
			if mode == "routes" {
				apply_check::<Derivative>(o, "derivative", len, &xs);
				apply_check::<Momentum>(o, "momentum", len, &xs);
				peek_check::<HighestIndex>(o, "hindex", len, &xs);
				peek_check::<LowestIndex>(o, "lindex", len, &xs);
			}
			if mode == "routes" {
				buffered_check(o, len, &xs);
			}
			let l2 = (l % 7 + 1) as PeriodType;
			other!(mode, o, &mut r, TSI, "tsi", (l2, len), &xs, false, 1.0, seq);
			if mode == "routes" {
				peek_check::<TSI>(o, "tsi", (l2, len), &xs);
			}
			if (l as u64) * 2 + 2 < max {
				other!(mode, o, &mut r, UpperReversalSignal, "upper_rev", (len, l2), &xs, true, sc, noseq);
				other!(mode, o, &mut r, LowerReversalSignal, "lower_rev", (l2, len), &xs, true, sc, noseq);
				other!(mode, o, &mut r, ReversalSignal, "reversal", (len, len), &xs, true, sc, noseq);
			}
			let w: Vec<V> = (0..l.min(40)).map(|i| (1 + (i * 7) % 5) as V).collect();
			other!(mode, o, &mut r, Conv, "conv", w.clone(), &xs, false, sc, seq);
			if mode == "routes" {
				peek_check::<Conv>(o, "conv", w, &xs);
			}
			// pairs
			let ps: Vec<(V, V)> = xs.iter().enumerate().map(|(i, x)| (*x, xs[(i * 7 + 3) % xs.len()].abs() + 1.0)).collect();
			other!(mode, o, &mut r, VWMA, "vwma", len, &ps, false, sc, noseq);
			if mode == "routes" {
				peek_check::<VWMA>(o, "vwma", len, &ps);
			}
			other!(mode, o, &mut r, Cross, "cross", (), &ps, true, sc, noseq);
			other!(mode, o, &mut r, CrossAbove, "cross_above", (), &ps, true, sc, noseq);
			other!(mode, o, &mut r, CrossUnder, "cross_under", (), &ps, true, sc, noseq);
			// candles (sized input)
			let cs: Vec<Candle> = gen::candles(&mut r, 60 + l as usize, gen::CANDLE_CLASSES[(id as usize) % gen::CANDLE_CLASSES.len()]);
			if mode != "constant" {
				// CollapseTimeframe counts its inputs: exempt from the constant-prehistory property
				other!(mode, o, &mut r, CollapseTimeframe<Candle>, "collapse", (l as usize % 9) + 1, &cs, true, sc, seq);
			}
			other!(mode, o, &mut r, Past<Candle>, "past_candle", len, &cs, true, sc, seq);
			out.line("E");
			id += 1;
		}
	}
	if mode == "constant" {
		out.line(&format!("C {} flags api_constant_renko", id));
		crate::renko::constant_flags(out, &mut rng.fork(77));
		out.line("E");
		id += 1;
	}
	out.add("cases", id);
	let _ = Error::WrongConfig;
}
