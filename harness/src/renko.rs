//! C17: Renko with adaptive inputs: prices exactly on, one ulp below and above the brick
//! boundaries read from the serialized state, multi-brick jumps and reversals.
use crate::flat::{flat_string, flatten};
use crate::methods::{err_kind, vtok};
use crate::rng::Rng;
use crate::util::*;
use yata::core::{Candle, Method, Source, ValueType, OHLCV};
use yata::methods::renko::RenkoOutput;
use yata::methods::Renko;

type V = ValueType;
const SOURCES: [Source; 8] = [
	Source::Close, Source::Open, Source::High, Source::Low, Source::HL2, Source::TP, Source::Volume, Source::VolumedPrice,
];

fn ctoks(c: &Candle) -> String {
	format!("{} {} {} {} {}", vtok(c.open), vtok(c.high), vtok(c.low), vtok(c.close), vtok(c.volume))
}

fn out_toks(o: &RenkoOutput) -> String {
	// observers first (they take &self), then drain a clone for the blocks
	let exact_len = ExactSizeIterator::len(o);
	let hint = o.size_hint();
	let agg = format!(
		"empty=i{} rising=i{} falling=i{} sign=i{} gap={} open={} close={} high={} low={} volume={}",
		o.is_empty() as u8, o.is_rising() as u8, o.is_falling() as u8, o.sign(), vtok(o.gap()), vtok(OHLCV::open(o)),
		vtok(OHLCV::close(o)), vtok(OHLCV::high(o)), vtok(OHLCV::low(o)), vtok(OHLCV::volume(o)),
	);
	let count = o.clone().count();
	let last = o.clone().last();
	let blocks: Vec<String> = o
		.clone()
		.map(|b| format!("{} {} {} i{}", vtok(b.open), vtok(b.close), vtok(b.volume), b.sign()))
		.collect();
	format!(
		"len=i{} hint=i{}/i{} count=i{} last={} ; {} ; {}",
		exact_len,
		hint.0,
		hint.1.map_or(-1i64, |x| x as i64),
		count,
		last.map_or("none".to_string(), |b| format!("{}/{}", vtok(b.open), vtok(b.close))),
		agg,
		blocks.join(" | "),
	)
}

fn ulp_step(x: f64, k: i64) -> f64 {
	f64::from_bits((x.to_bits() as i64 + k) as u64)
}

/// run one explicit case (used by generation and replay); `adaptive` chooses the next price from state
pub fn run_case(out: &mut Out, id: u64, brick: f64, src_idx: usize, init: Candle, inputs: &mut Vec<Candle>, mut rng: Option<Rng>, steps: usize) {
	let src = SOURCES[src_idx];
	// the brick size as the value type holds it (single precision in the value_type_f32 build)
	let brick = (brick as V) as f64;
	out.line(&format!("C {} renko f{} {}", id, fbits(brick), src_idx));
	let r = guard(|| Renko::new((brick as V, src), &init));
	let mut m = match r {
		None => {
			out.line(&format!("N {} ; P ;", ctoks(&init)));
			out.line("E");
			return;
		}
		Some(Err(e)) => {
			out.line(&format!("N {} ; err:{} ;", ctoks(&init), err_kind(&e)));
			out.count("ctor:err");
			out.line("E");
			return;
		}
		Some(Ok(m)) => m,
	};
	out.line(&format!("N {} ; ok ; {}", ctoks(&init), flat_string(&m)));
	let mut price = init.source(src) as f64;
	let mut i = 0;
	loop {
		let c = if let Some(r) = rng.as_mut() {
			if i >= steps {
				break;
			}
			// state: last_upper, last_lower, next_upper, next_lower, brick, src, volume
			let st = flatten(&m);
			let f = |k: usize| parse_fbits(st[k].trim_start_matches('f'));
			let (lu, ll, nu, nl) = (f(0), f(1), f(2), f(3));
			let target = match r.below(16) {
				0 => nu,
				1 => ulp_step(nu, 1),
				2 => ulp_step(nu, -1),
				3 => nl,
				4 => ulp_step(nl, -1),
				5 => ulp_step(nl, 1),
				6 => lu * (1.0 + brick * (2 + r.below(5)) as f64),
				7 => ll * (1.0 - brick * (2 + r.below(3)) as f64),
				8 => price * (1.0 + brick * 7.3 * r.unit()),
				9 => price * (1.0 - (brick * 5.1 * r.unit()).min(0.9)),
				10 => lu * (1.0 + brick) * (1.0 + brick),
				_ => price * (1.0 + brick * 0.6 * r.gauss()),
			};
			// (finite and positive in the precision of the build: a target beyond f32::MAX would be an infinite price)
			let target = if target.is_finite() && target > 0.0 && ((target as V) as f64).is_finite() && (target as V) > 0.0 { target } else { price };
			price = target;
			let vol = if r.chance(1, 5) { 0.0 } else { 1.0 + r.below(100) as f64 };
			// a candle whose selected source equals the target (plain sources; composed sources get the same four prices)
			let c = Candle { open: target as V, high: target as V, low: target as V, close: target as V, volume: if src_idx == 6 { target as V } else { vol as V } };
			inputs.push(c);
			c
		} else {
			if i >= inputs.len() {
				break;
			}
			inputs[i]
		};
		i += 1;
		// a composed source of a finite candle can still overflow in the precision of the build (tp = (h + l + c) / 3 next to
		// f32::MAX): such a candle has no price to offer and ends the case
		if !(c.source(src) as f64).is_finite() {
			break;
		}
		let pre = flat_string(&m);
		match guard(|| m.next(&c)) {
			None => {
				out.line(&format!("X {} {} ; P ; ; ; {}", ctoks(&c), vtok(c.source(src)), pre));
				out.count("next:panic");
				break;
			}
			Some(o) => {
				if !o.is_empty() {
					out.count("emissions");
				}
				// the value the real `source()` extracts is part of the line (its arithmetic is C18's subject)
				out.line(&format!("X {} {} ; {} ; {}", ctoks(&c), vtok(c.source(src)), out_toks(&o), flat_string(&m)));
			}
		}
	}
	out.add("steps", i as u64);
	out.line("E");
}

pub fn suite(out: &mut Out, seed: u64, thorough: bool) {
	let mut rng = Rng::new(seed);
	let bricks = [2.3e-16, 1e-12, 1e-6, 0.001, 0.01, 0.013, 0.05, 0.1, 0.3, 0.5, 0.9, 0.999999];
	let mut id = 0;
	let reps = if thorough { 12 } else { 3 };
	for &b in &bricks {
		for rep in 0..reps {
			let mut r = rng.fork(id);
			let src_idx = if rep % 3 == 0 { 0 } else { r.below(6) as usize };
			let p0 = *r.pick(&[1.0, 100.0, 123.456, 1e-4, 5e6]);
			// every other case starts from a candle whose fields all differ, so that the configured source matters at construction
			let init = if rep % 2 == 1 {
				Candle { open: (p0 * 0.99) as V, high: (p0 * 1.03) as V, low: (p0 * 0.97) as V, close: p0 as V, volume: 10.0 }
			} else {
				Candle { open: p0 as V, high: p0 as V, low: p0 as V, close: p0 as V, volume: 10.0 }
			};
			let steps = if thorough { 1500 } else { 400 };
			if id < 3 {
				out.sample(format!("renko brick={} src={} p0={} steps={} (adaptive boundary prices)", b, src_idx, p0, steps));
			}
			run_case(out, id, b, src_idx, init, &mut Vec::new(), Some(r), steps);
			id += 1;
		}
	}
	// rejected brick sizes
	for b in [0.0, 1e-17, 1.1e-16, 1.0, 1.5, -0.1, f64::NAN, f64::INFINITY] {
		let init = Candle { open: 1.0, high: 1.0, low: 1.0, close: 1.0, volume: 1.0 };
		run_case(out, id, b, 0, init, &mut Vec::new(), Some(rng.fork(id)), 3);
		id += 1;
	}
	out.add("cases", id);
}

/// C08 for Renko: the construction candle is an infinite constant prehistory — feeding it again (any number of times)
/// emits no brick, for every source and brick size
pub fn constant_flags(out: &mut Out, rng: &mut Rng) {
	for (si, src) in SOURCES.iter().enumerate().take(6) {
		for b in [0.001, 0.01, 0.05, 0.3] {
			let p0 = *rng.pick(&[1.0, 100.0, 123.456, 5e6]);
			let c0 = Candle { open: (p0 * 0.98) as V, high: (p0 * 1.06) as V, low: (p0 * 0.95) as V, close: p0 as V, volume: 10.0 };
			let r = guard(|| {
				let mut m = Renko::new((b as V, *src), &c0).ok()?;
				for t in 0..(40 + rng.below(300)) {
					let o = m.next(&c0);
					if !o.is_empty() {
						return Some(Some(format!("step {}: {} brick(s) emitted on the construction candle (source #{}, brick {})", t, o.len(), si, b)));
					}
				}
				Some(None)
			});
			let (ok, d) = match r {
				Some(Some(None)) | Some(None) => (true, String::new()),
				Some(Some(Some(d))) => (false, d),
				None => (false, "panicked".into()),
			};
			out.line(&format!("F renko constant_input ; ok=i{} {}", ok as u8, d.replace(';', ",")));
			out.count("check:renko_constant");
		}
	}
}

pub fn replay_case(out: &mut Out, id: u64, lines: &[String]) {
	let head: Vec<&str> = lines[0].split_whitespace().collect();
	let brick = parse_fbits(head[3].trim_start_matches('f'));
	let src_idx: usize = head[4].parse().unwrap();
	let cand = |t: &[String]| -> Candle {
		let f: Vec<f64> = t.iter().map(|s| parse_fbits(s.trim_start_matches('f'))).collect();
		Candle { open: f[0] as V, high: f[1] as V, low: f[2] as V, close: f[3] as V, volume: f[4] as V }
	};
	let mut init = None;
	let mut inputs = Vec::new();
	for l in &lines[1..] {
		let t = op_tokens(l);
		if t.is_empty() {
			continue;
		}
		match t[0].as_str() {
			"N" => init = Some(cand(&t[1..6])),
			"X" => inputs.push(cand(&t[1..6])),
			_ => {}
		}
	}
	if let Some(init) = init {
		run_case(out, id, brick, src_idx, init, &mut inputs, None, 0);
	}
}
