//! C01: random programs over `yata::core::Window<u32>` (labels stand for all values).
use crate::rng::Rng;
use crate::util::*;
use yata::core::{PeriodType, Window};

type W = Window<u32>;

fn state_string(w: &W) -> String {
	let v = serde_json::to_value(w).expect("window serializes");
	let idx = v["index"].as_u64().unwrap();
	let buf: Vec<String> = w.as_slice().iter().map(|x| x.to_string()).collect();
	format!("L{} {} i{}", buf.len(), buf.join(" "), idx).replace("  ", " ")
}

fn opt(v: Option<Option<&u32>>) -> String {
	match v {
		None => "P".into(),
		Some(None) => "none".into(),
		Some(Some(x)) => format!("some {}", x),
	}
}

/// generate one program for capacity `cap`
pub fn gen_program(rng: &mut Rng, cap: usize, dense: bool) -> Vec<String> {
	let mut p = Vec::new();
	let mut label: u32 = 1000;
	match rng.below(6) {
		0 if cap > 0 => {
			let buf: Vec<String> = (0..cap).map(|i| (100 + i).to_string()).collect();
			p.push(format!("fromvec {} {}", cap, buf.join(" ")));
		}
		1 if cap > 0 => {
			let buf: Vec<String> = (0..cap).map(|i| (100 + i).to_string()).collect();
			let idx = rng.below(cap as u64);
			p.push(format!("fromparts {} {} {}", cap, buf.join(" "), idx));
		}
		_ => p.push(format!("new {} 7", cap)),
	}
	p.push("state".into());
	let pushes = 3 * cap + 5 + rng.below(10) as usize;
	let obs_den = if dense || cap <= 8 { 1 } else { 6 };
	for i in 0..pushes {
		p.push(format!("push {}", label));
		label += 1;
		// the full buffer after every push for small windows, periodically for large ones
		if cap <= 64 || i % 37 == 0 || i + 1 == pushes {
			p.push("state".into());
		}
		if rng.below(obs_den) == 0 {
			for _ in 0..(1 + rng.below(3)) {
				observer(rng, cap, &mut p);
			}
		}
	}
	// closing sweep
	p.push("newest".into());
	p.push("oldest".into());
	p.push("len".into());
	p.push("isempty".into());
	let ks: Vec<usize> = if cap <= 40 {
		(0..=cap + 2).collect()
	} else {
		let mut v: Vec<usize> = vec![0, 1, cap - 1, cap, cap + 1, 254, 255];
		for _ in 0..6 {
			v.push(rng.below(cap as u64 + 2) as usize)
		}
		v
	};
	for &k in &ks {
		if k <= gen_max() as usize {
			p.push(format!("get {}", k));
			if !is_compat() || k < cap {
				p.push(format!("idx {}", k));
			}
		}
	}
	let js: Vec<usize> = if cap <= 24 {
		(0..=cap + 1).collect()
	} else {
		vec![0, 1, cap / 2, cap - 1, cap, cap + 1]
	};
	for &j in &js {
		p.push(format!("iter {}", j));
		p.push(format!("iterrev {}", j));
	}
	p.push("serde".into());
	p.push("state".into());
	p.push(format!("push {}", label));
	p.push("state".into());
	p.push("rebuild".into());
	p.push("state".into());
	p.push(format!("push {}", label + 1));
	p.push("state".into());
	p
}

fn observer(rng: &mut Rng, cap: usize, p: &mut Vec<String>) {
	let max = gen_max();
	match rng.below(10) {
		0 => p.push("newest".into()),
		1 => p.push("oldest".into()),
		2 | 3 => p.push(format!("get {}", rng.below(cap as u64 + 3).min(max))),
		4 => {
			// the property compares builds only on programs the default build does not panic on
			let k = if is_compat() { rng.below(cap.max(1) as u64) } else { rng.below(cap as u64 + 2).min(max) };
			p.push(format!("idx {}", k))
		}
		5 | 6 => p.push(format!("iter {}", rng.below(cap as u64 + 2))),
		7 | 8 => p.push(format!("iterrev {}", rng.below(cap as u64 + 2))),
		_ => {
			if rng.chance(1, 2) {
				p.push("serde".into())
			} else {
				p.push("rebuild".into())
			}
			p.push("state".into());
		}
	}
}

/// adversarial serialized forms
pub fn gen_de_program(rng: &mut Rng) -> Vec<String> {
	let mut p = Vec::new();
	let max = gen_max() as usize;
	let small = max <= 255;
	let lens: Vec<usize> = if small { vec![0, 1, 2, 5, max - 2, max - 1, max, max + 1, max + 45] } else { vec![0, 1, 2, 5, 254, 255, 256, 300] };
	for &len in &lens {
		let idxs: Vec<i64> = vec![
			0,
			1,
			len as i64 - 1,
			len as i64,
			len as i64 + 1,
			max as i64,
			max as i64 + 1,
			-1,
			rng.below(len as u64 + 1) as i64,
		];
		for idx in idxs {
			p.push(format!("de {} {}", len, idx));
			p.push("state".into());
			p.push("push 5".into());
			p.push("state".into());
			p.push("iter 0".into());
		}
	}
	if !small && max <= 70_000 {
		// the size limits of a wide PeriodType: only the accept/reject decision (no follow-up on 65k-element windows)
		for len in [max - 1, max, max + 1] {
			for idx in [0i64, len as i64 - 1, len as i64] {
				p.push(format!("de {} {}", len, idx));
			}
		}
		p.push("new 3 7".into());
	}
	p.push("debad 0".into());
	p.push("debad 1".into());
	p.push("debad 2".into());
	p.push("debad 3".into());
	p
}

fn iter_result<'a, I>(mk: impl Fn() -> I, j: usize) -> String
where
	I: Iterator<Item = &'a u32>,
{
	// every observation on a fresh iterator advanced j times, each under its own guard
	let adv = |it: &mut I| {
		for _ in 0..j {
			if it.next().is_none() {
				break;
			}
		}
	};
	let rest = guard(|| {
		let mut it = mk();
		adv(&mut it);
		it.map(|x| x.to_string()).collect::<Vec<_>>().join(" ")
	});
	let hint = guard(|| {
		let mut it = mk();
		adv(&mut it);
		it.size_hint()
	});
	let count = guard(|| {
		let mut it = mk();
		adv(&mut it);
		it.count()
	});
	let last = guard(|| {
		let mut it = mk();
		adv(&mut it);
		it.last()
	});
	// fused: next() after exhaustion stays None
	let fused = guard(|| {
		let mut it = mk();
		while it.next().is_some() {}
		it.next().is_none() && it.next().is_none()
	});
	format!(
		"r {} h {} c {} l {} f {}",
		rest.unwrap_or_else(|| "P".into()),
		match hint {
			Some((a, Some(b))) => format!("{} {}", a, b),
			Some((a, None)) => format!("{} inf", a),
			None => "P".into(),
		},
		count.map_or("P".into(), |c| c.to_string()),
		opt(last),
		fused.map_or("P".into(), |b| (b as u8).to_string()),
	)
	.replace("r  h", "r h")
}

pub fn run_program(out: &mut Out, id: u64, prog: &[String]) {
	out.line(&format!("C {} window", id));
	let mut w: W = Window::empty();
	for line in prog {
		let t = op_tokens(line);
		if t.is_empty() {
			continue;
		}
		out.count(&format!("op:{}", t[0]));
		let res: String = match t[0].as_str() {
			"new" => {
				let cap: PeriodType = t[1].parse().unwrap();
				let v: u32 = t[2].parse().unwrap();
				match guard(|| Window::new(cap, v)) {
					Some(nw) => {
						w = nw;
						"ok".into()
					}
					None => "P".into(),
				}
			}
			"fromvec" | "fromparts" => {
				let len: usize = t[1].parse().unwrap();
				let buf: Vec<u32> = t[2..2 + len].iter().map(|s| s.parse().unwrap()).collect();
				let r = if t[0] == "fromvec" {
					guard(|| W::from(buf))
				} else {
					let idx: PeriodType = t[2 + len].parse().unwrap();
					guard(|| W::from_parts(buf.into_boxed_slice(), idx))
				};
				match r {
					Some(nw) => {
						w = nw;
						"ok".into()
					}
					None => "P".into(),
				}
			}
			"push" => {
				let x: u32 = t[1].parse().unwrap();
				match guard(|| w.push(x)) {
					Some(old) => old.to_string(),
					None => "P".into(),
				}
			}
			"state" => state_string(&w),
			"newest" => guard(|| *w.newest()).map_or("P".into(), |v| v.to_string()),
			"oldest" => guard(|| *w.oldest()).map_or("P".into(), |v| v.to_string()),
			"len" => w.len().to_string(),
			"isempty" => (w.is_empty() as u8).to_string(),
			"get" => {
				let k: PeriodType = t[1].parse().unwrap();
				opt(guard(|| w.get(k)))
			}
			"idx" => {
				let k: PeriodType = t[1].parse().unwrap();
				guard(|| w[k]).map_or("P".into(), |v| v.to_string())
			}
			"iter" => {
				let j: usize = t[1].parse().unwrap();
				// alternate between the two ways of obtaining the iterator
				if j % 2 == 0 {
					iter_result(|| w.iter(), j)
				} else {
					iter_result(|| (&w).into_iter(), j)
				}
			}
			"iterrev" => {
				let j: usize = t[1].parse().unwrap();
				iter_result(|| w.iter_rev(), j)
			}
			"serde" => {
				let s = serde_json::to_string(&w).unwrap();
				match guard(|| serde_json::from_str::<W>(&s)) {
					Some(Ok(nw)) => {
						w = nw;
						"ok".into()
					}
					Some(Err(_)) => "err".into(),
					None => "P".into(),
				}
			}
			"rebuild" => {
				let v = serde_json::to_value(&w).unwrap();
				let idx = v["index"].as_u64().unwrap() as PeriodType;
				let slice: Box<[u32]> = w.as_slice().to_vec().into_boxed_slice();
				match guard(|| W::from_parts(slice, idx)) {
					Some(nw) => {
						w = nw;
						"ok".into()
					}
					None => "P".into(),
				}
			}
			"de" => {
				let len: usize = t[1].parse().unwrap();
				let idx: i64 = t[2].parse().unwrap();
				let buf: Vec<String> = (0..len).map(|i| (200 + i).to_string()).collect();
				let s = format!("{{\"buf\":[{}],\"index\":{}}}", buf.join(","), idx);
				match guard(|| serde_json::from_str::<W>(&s)) {
					Some(Ok(nw)) => {
						w = nw;
						"ok".into()
					}
					Some(Err(_)) => "err".into(),
					None => "P".into(),
				}
			}
			"debad" => {
				let s = match t[1].as_str() {
					"0" => "{\"buf\":[1,2,3]}",
					"1" => "{\"index\":0}",
					"2" => "{\"buf\":\"abc\",\"index\":0}",
					_ => "[1,2,3]",
				};
				match guard(|| serde_json::from_str::<W>(s)) {
					Some(Ok(_)) => "ok".into(),
					Some(Err(_)) => "err".into(),
					None => "P".into(),
				}
			}
			other => panic!("unknown window op {other}"),
		};
		if res == "P" {
			out.count("panics");
		}
		out.line(&format!("{} ; {}", t.join(" "), res));
	}
	out.line("E");
}

pub fn suite(out: &mut Out, seed: u64, thorough: bool) {
	let mut rng = Rng::new(seed);
	let max = gen_max() as usize;
	let mut id = 0u64;
	let caps: Vec<usize> = if max <= 255 {
		(0..=max).collect()
	} else {
		let mut v: Vec<usize> = (0..=40).collect();
		v.extend([255, 256, 257, 300]);
		if thorough {
			v.extend([1000, 4096]);
		}
		v
	};
	let rounds = if thorough { 6 } else { 1 };
	for round in 0..rounds {
		for &cap in &caps {
			if is_compat() && cap == 0 {
				// on an empty window `push`, `newest`, `oldest` and indexing are undefined behaviour in the unchecked build;
				// the accessors that stay checked must still agree with the default build
				let prog: Vec<String> = ["new 0 7", "state", "len", "isempty", "get 0", "get 1", "get 2", "iter 0", "iter 1", "iterrev 0", "iterrev 1", "serde", "state"]
					.iter()
					.map(|s| s.to_string())
					.collect();
				out.count("programs");
				run_program(out, id, &prog);
				id += 1;
				continue;
			}
			let mut r = rng.fork((round * 1000 + cap) as u64);
			let prog = gen_program(&mut r, cap, thorough && cap <= 64);
			if id < 3 || cap == 3 {
				out.sample(format!("cap={} prog[..12]={:?}", cap, &prog[..prog.len().min(12)]));
			}
			out.count("programs");
			run_program(out, id, &prog);
			id += 1;
		}
	}
	drop_accounting(out, id);
	id += 1;
	if is_compat() {
		return;
	}
	let prog = gen_de_program(&mut rng);
	out.count("programs");
	run_program(out, id, &prog);
}

/// element types with a destructor: every value handed to a window is destroyed exactly once, and a value returned by
/// `push` / `Past::next` is still alive when the caller receives it (C19: the unchecked build moves values with raw
/// pointer reads/writes)
fn drop_accounting(out: &mut Out, id: u64) {
	use std::cell::RefCell;
	use std::rc::Rc;
	use yata::core::Method;
	use yata::methods::Past;
	#[derive(Debug)]
	struct Tracked {
		id: usize,
		log: Rc<RefCell<Vec<u32>>>,
	}
	impl Tracked {
		fn fresh(log: &Rc<RefCell<Vec<u32>>>) -> Self {
			let id = {
				let mut l = log.borrow_mut();
				l.push(0);
				l.len() - 1
			};
			Tracked { id, log: log.clone() }
		}
	}
	impl Clone for Tracked {
		fn clone(&self) -> Self {
			Tracked::fresh(&self.log)
		}
	}
	impl Drop for Tracked {
		fn drop(&mut self) {
			self.log.borrow_mut()[self.id] += 1;
		}
	}
	out.line(&format!("C {} flags window_drop", id));
	for cap in [1usize, 2, 3, 7] {
		let log = Rc::new(RefCell::new(Vec::new()));
		let mut alive_when_returned = true;
		let r = guard(|| {
			let seed = Tracked::fresh(&log);
			let mut w = yata::core::Window::new(cap as yata::core::PeriodType, seed);
			for _ in 0..(3 * cap + 2) {
				let old = w.push(Tracked::fresh(&log));
				if log.borrow()[old.id] != 0 {
					alive_when_returned = false;
				}
				drop(old);
			}
			drop(w);
		});
		let counts = log.borrow().clone();
		let once = counts.iter().all(|c| *c == 1);
		out.line(&format!("F window_drop push_cap{} ; ok=i{} returned_alive={} destroyed_once={} panicked={} counts={:?}", cap,
			(r.is_some() && alive_when_returned && once) as u8, alive_when_returned, once, r.is_none(), &counts[..counts.len().min(12)]));
		let log2 = Rc::new(RefCell::new(Vec::new()));
		let mut alive2 = true;
		let r2 = guard(|| {
			let seed = Tracked::fresh(&log2);
			if let Ok(mut p) = Past::<Tracked>::new(cap as yata::core::PeriodType, &seed) {
				for _ in 0..(2 * cap + 3) {
					let x = Tracked::fresh(&log2);
					let old = p.next(&x);
					if log2.borrow()[old.id] != 0 {
						alive2 = false;
					}
				}
			}
			drop(seed);
		});
		let counts2 = log2.borrow().clone();
		let once2 = counts2.iter().all(|c| *c == 1);
		out.line(&format!("F window_drop past_len{} ; ok=i{} returned_alive={} destroyed_once={} panicked={}", cap,
			(r2.is_some() && alive2 && once2) as u8, alive2, once2, r2.is_none()));
	}
	out.line("E");
}
