//! A `serde::Serializer` that flattens any serializable instance into its leaves,
//! in declaration order: `f<hex bits>` floats, `i<int>` integers / bools / variant indices,
//! `L<len>` before a sequence, `o0`/`o1` options, `s<text>` strings.
//! This is how the harness reads the internal state of yata instances without source hooks.
use serde::ser::{self, Serialize};
use std::fmt;

#[derive(Debug)]
pub struct FlatErr(String);
impl fmt::Display for FlatErr {
	fn fmt(&self, f: &mut fmt::Formatter<'_>) -> fmt::Result {
		f.write_str(&self.0)
	}
}
impl std::error::Error for FlatErr {}
impl ser::Error for FlatErr {
	fn custom<T: fmt::Display>(msg: T) -> Self {
		FlatErr(msg.to_string())
	}
}

#[derive(Default)]
pub struct Flat {
	pub out: Vec<String>,
}

pub fn flatten<T: Serialize + ?Sized>(v: &T) -> Vec<String> {
	let mut f = Flat::default();
	v.serialize(&mut f).expect("flatten");
	f.out
}

pub fn flat_string<T: Serialize + ?Sized>(v: &T) -> String {
	flatten(v).join(" ")
}

macro_rules! int_impl {
	($name:ident, $t:ty) => {
		fn $name(self, v: $t) -> Result<(), FlatErr> {
			self.out.push(format!("i{}", v));
			Ok(())
		}
	};
}

impl<'a> ser::Serializer for &'a mut Flat {
	type Ok = ();
	type Error = FlatErr;
	type SerializeSeq = Self;
	type SerializeTuple = Self;
	type SerializeTupleStruct = Self;
	type SerializeTupleVariant = Self;
	type SerializeMap = Self;
	type SerializeStruct = Self;
	type SerializeStructVariant = Self;

	fn serialize_bool(self, v: bool) -> Result<(), FlatErr> {
		self.out.push(format!("i{}", v as u8));
		Ok(())
	}
	int_impl!(serialize_i8, i8);
	int_impl!(serialize_i16, i16);
	int_impl!(serialize_i32, i32);
	int_impl!(serialize_i64, i64);
	int_impl!(serialize_u8, u8);
	int_impl!(serialize_u16, u16);
	int_impl!(serialize_u32, u32);
	int_impl!(serialize_u64, u64);
	fn serialize_f32(self, v: f32) -> Result<(), FlatErr> {
		// widen exactly; the driver works with binary64 bit patterns
		self.out.push(format!("f{:016x}", (v as f64).to_bits()));
		Ok(())
	}
	fn serialize_f64(self, v: f64) -> Result<(), FlatErr> {
		self.out.push(format!("f{:016x}", v.to_bits()));
		Ok(())
	}
	fn serialize_char(self, v: char) -> Result<(), FlatErr> {
		self.out.push(format!("s{}", v));
		Ok(())
	}
	fn serialize_str(self, v: &str) -> Result<(), FlatErr> {
		self.out.push(format!("s{}", v.replace(' ', "_")));
		Ok(())
	}
	fn serialize_bytes(self, v: &[u8]) -> Result<(), FlatErr> {
		self.out.push(format!("L{}", v.len()));
		for b in v {
			self.out.push(format!("i{}", b));
		}
		Ok(())
	}
	fn serialize_none(self) -> Result<(), FlatErr> {
		self.out.push("o0".into());
		Ok(())
	}
	fn serialize_some<T: ?Sized + Serialize>(self, value: &T) -> Result<(), FlatErr> {
		self.out.push("o1".into());
		value.serialize(self)
	}
	fn serialize_unit(self) -> Result<(), FlatErr> {
		Ok(())
	}
	fn serialize_unit_struct(self, _name: &'static str) -> Result<(), FlatErr> {
		Ok(())
	}
	fn serialize_unit_variant(
		self,
		_name: &'static str,
		idx: u32,
		_variant: &'static str,
	) -> Result<(), FlatErr> {
		self.out.push(format!("v{}", idx));
		Ok(())
	}
	fn serialize_newtype_struct<T: ?Sized + Serialize>(
		self,
		_name: &'static str,
		value: &T,
	) -> Result<(), FlatErr> {
		value.serialize(self)
	}
	fn serialize_newtype_variant<T: ?Sized + Serialize>(
		self,
		_name: &'static str,
		idx: u32,
		_variant: &'static str,
		value: &T,
	) -> Result<(), FlatErr> {
		self.out.push(format!("v{}", idx));
		value.serialize(self)
	}
	fn serialize_seq(self, len: Option<usize>) -> Result<Self, FlatErr> {
		self.out.push(format!("L{}", len.unwrap_or(0)));
		Ok(self)
	}
	fn serialize_tuple(self, _len: usize) -> Result<Self, FlatErr> {
		Ok(self)
	}
	fn serialize_tuple_struct(self, _name: &'static str, _len: usize) -> Result<Self, FlatErr> {
		Ok(self)
	}
	fn serialize_tuple_variant(
		self,
		_name: &'static str,
		idx: u32,
		_variant: &'static str,
		_len: usize,
	) -> Result<Self, FlatErr> {
		self.out.push(format!("v{}", idx));
		Ok(self)
	}
	fn serialize_map(self, len: Option<usize>) -> Result<Self, FlatErr> {
		self.out.push(format!("L{}", len.unwrap_or(0)));
		Ok(self)
	}
	fn serialize_struct(self, _name: &'static str, _len: usize) -> Result<Self, FlatErr> {
		Ok(self)
	}
	fn serialize_struct_variant(
		self,
		_name: &'static str,
		idx: u32,
		_variant: &'static str,
		_len: usize,
	) -> Result<Self, FlatErr> {
		self.out.push(format!("v{}", idx));
		Ok(self)
	}
}

macro_rules! compound {
	($tr:ident, $f:ident) => {
		impl<'a> ser::$tr for &'a mut Flat {
			type Ok = ();
			type Error = FlatErr;
			fn $f<T: ?Sized + Serialize>(&mut self, value: &T) -> Result<(), FlatErr> {
				value.serialize(&mut **self)
			}
			fn end(self) -> Result<(), FlatErr> {
				Ok(())
			}
		}
	};
}
compound!(SerializeSeq, serialize_element);
compound!(SerializeTuple, serialize_element);
compound!(SerializeTupleStruct, serialize_field);
compound!(SerializeTupleVariant, serialize_field);

impl<'a> ser::SerializeMap for &'a mut Flat {
	type Ok = ();
	type Error = FlatErr;
	fn serialize_key<T: ?Sized + Serialize>(&mut self, key: &T) -> Result<(), FlatErr> {
		key.serialize(&mut **self)
	}
	fn serialize_value<T: ?Sized + Serialize>(&mut self, value: &T) -> Result<(), FlatErr> {
		value.serialize(&mut **self)
	}
	fn end(self) -> Result<(), FlatErr> {
		Ok(())
	}
}
impl<'a> ser::SerializeStruct for &'a mut Flat {
	type Ok = ();
	type Error = FlatErr;
	fn serialize_field<T: ?Sized + Serialize>(
		&mut self,
		_key: &'static str,
		value: &T,
	) -> Result<(), FlatErr> {
		value.serialize(&mut **self)
	}
	fn end(self) -> Result<(), FlatErr> {
		Ok(())
	}
}
impl<'a> ser::SerializeStructVariant for &'a mut Flat {
	type Ok = ();
	type Error = FlatErr;
	fn serialize_field<T: ?Sized + Serialize>(
		&mut self,
		_key: &'static str,
		value: &T,
	) -> Result<(), FlatErr> {
		value.serialize(&mut **self)
	}
	fn end(self) -> Result<(), FlatErr> {
		Ok(())
	}
}
