//! SplitMix64: every random choice of the harness derives from one state.
#[derive(Clone, Debug)]
pub struct Rng(pub u64);

impl Rng {
	pub fn new(seed: u64) -> Self {
		Rng(seed ^ 0x9E37_79B9_7F4A_7C15)
	}
	pub fn fork(&mut self, salt: u64) -> Rng {
		let a = self.next_u64();
		Rng(a ^ salt.wrapping_mul(0xD6E8_FEB8_6659_FD93))
	}
	pub fn next_u64(&mut self) -> u64 {
		self.0 = self.0.wrapping_add(0x9E37_79B9_7F4A_7C15);
		let mut z = self.0;
		z = (z ^ (z >> 30)).wrapping_mul(0xBF58_476D_1CE4_E5B9);
		z = (z ^ (z >> 27)).wrapping_mul(0x94D0_49BB_1331_11EB);
		z ^ (z >> 31)
	}
	/// uniform in 0..n (n > 0)
	pub fn below(&mut self, n: u64) -> u64 {
		self.next_u64() % n
	}
	pub fn range(&mut self, lo: i64, hi: i64) -> i64 {
		lo + (self.below((hi - lo + 1) as u64) as i64)
	}
	pub fn chance(&mut self, num: u64, den: u64) -> bool {
		self.below(den) < num
	}
	/// uniform in [0,1)
	pub fn unit(&mut self) -> f64 {
		(self.next_u64() >> 11) as f64 / (1u64 << 53) as f64
	}
	pub fn pick<'a, T>(&mut self, xs: &'a [T]) -> &'a T {
		&xs[self.below(xs.len() as u64) as usize]
	}
	/// roughly normal(0,1)
	pub fn gauss(&mut self) -> f64 {
		let mut s = 0.0;
		for _ in 0..6 {
			s += self.unit();
		}
		(s - 3.0) * std::f64::consts::SQRT_2
	}
}
