//! C16: the Action algebra. Exhaustive over the 513 actions (all pairs), all i8, float
//! conversions around every step of the 255-level quantiser; thorough: every f32 bit pattern.
use crate::methods::action_tok;
use crate::rng::Rng;
use crate::util::*;
use yata::core::Action;

fn all_actions() -> Vec<Action> {
	let mut v = vec![Action::None];
	for k in 0..=255u8 {
		v.push(Action::Buy(k));
		v.push(Action::Sell(k));
	}
	v
}

fn ord(o: std::cmp::Ordering) -> i8 {
	match o {
		std::cmp::Ordering::Less => -1,
		std::cmp::Ordering::Equal => 0,
		std::cmp::Ordering::Greater => 1,
	}
}

fn f64_line(out: &mut Out, v: f64) {
	let r = guard(|| Action::from(v));
	let r2 = guard(|| Action::from(Some(v)));
	let r3 = guard(|| Action::from(&v));
	out.line(&format!(
		"f64 {} ; {} {} {}",
		fbits(v),
		r.map_or("P".into(), |a| action_tok(&a)),
		r2.map_or("P".into(), |a| action_tok(&a)),
		r3.map_or("P".into(), |a| action_tok(&a)),
	));
	out.count("f64");
}

fn f32_line(out: &mut Out, v: f32) {
	let r = guard(|| Action::from(v));
	// the transcript carries the exactly widened value
	out.line(&format!("f32 {} ; {}", fbits(v as f64), r.map_or("P".into(), |a| action_tok(&a))));
	out.count("f32");
}

fn next_up(x: f64, k: i64) -> f64 {
	// k ulps away in the ordering of finite doubles (k may be negative)
	let b = x.to_bits() as i64;
	let key = if b < 0 { i64::MIN - b } else { b };
	let nk = key + k;
	let nb = if nk < 0 { i64::MIN - nk } else { nk };
	f64::from_bits(nb as u64)
}

fn parse_act(s: &str) -> Action {
	if s == "aN" {
		Action::None
	} else if let Some(k) = s.strip_prefix("aB") {
		Action::Buy(k.parse().unwrap())
	} else if let Some(k) = s.strip_prefix("aS") {
		Action::Sell(k.parse().unwrap())
	} else {
		panic!("bad action token {s}")
	}
}

/// re-execute the ops of a replayed case (only the line kinds that carry their operands)
pub fn replay_case(out: &mut Out, id: u64, lines: &[String]) {
	out.line(&format!("C {} action", id));
	for l in &lines[1..] {
		let t = op_tokens(l);
		if t.is_empty() {
			continue;
		}
		match t[0].as_str() {
			"f64" => f64_line(out, parse_fbits(&t[1])),
			"f32" => f32_line(out, parse_fbits(&t[1]) as f32),
			"pair" => pair_line(out, &parse_act(&t[1]), &parse_act(&t[2])),
			"un" => un_line(out, &parse_act(&t[1])),
			"i8" => i8_line(out, t[1].parse().unwrap()),
			_ => {}
		}
	}
	out.line("E");
}

fn i8_line(out: &mut Out, v: i8) {
	let a = Action::from(v);
	let b = Action::from_analog(v);
	let c = Action::from(Some(v));
	out.line(&format!("i8 {} ; {} {} {}", v, action_tok(&a), action_tok(&b), action_tok(&c)));
	out.count("i8");
}

fn un_line(out: &mut Out, a: &Action) {
	let ratio: Option<f64> = a.ratio().map(|x| x as f64);
	let back = ratio.map(|r| Action::from(r));
	let analog: i8 = a.analog();
	let sign: Option<i8> = a.sign();
	out.line(&format!(
		"un {} ; neg={} analog={} sign={} value={} ratio={} back={} none={} some={}",
		action_tok(a),
		action_tok(&-*a),
		analog,
		sign.map_or("-".into(), |s| s.to_string()),
		a.value().map_or("-".into(), |s| s.to_string()),
		ratio.map_or("-".into(), |r| fbits(r)),
		back.map_or("-".into(), |b| action_tok(&b)),
		a.is_none() as u8,
		a.is_some() as u8,
	));
	out.count("unary");
}

fn pair_line(out: &mut Out, a: &Action, b: &Action) {
	let sub = guard(|| *a - *b);
	out.line(&format!(
		"pair {} {} ; sub={} eq={} ne={} cmp={} pcmp={}",
		action_tok(a),
		action_tok(b),
		sub.map_or("P".into(), |s| action_tok(&s)),
		(a == b) as u8,
		(a != b) as u8,
		ord(a.cmp(b)),
		a.partial_cmp(b).map_or("-".into(), |o| ord(o).to_string()),
	));
}

pub fn suite(out: &mut Out, seed: u64, thorough: bool) {
	let mut rng = Rng::new(seed);
	out.line("C 0 action");
	// every i8
	for v in i8::MIN..=i8::MAX {
		i8_line(out, v);
	}
	out.line(&format!("i8none ; {}", action_tok(&Action::from(None::<i8>))));
	out.line(&format!("bool ; {} {}", action_tok(&Action::from(true)), action_tok(&Action::from(false))));
	out.line(&format!("default ; {}", action_tok(&Action::default())));
	// unary observers
	let acts = all_actions();
	for a in &acts {
		un_line(out, a);
	}
	// all pairs
	for a in &acts {
		for b in &acts {
			pair_line(out, a, b);
		}
	}
	out.add("pairs", (acts.len() * acts.len()) as u64);
	// f64 around every quantiser step, both signs
	for k in 0..=256i64 {
		for centre in [(k as f64 - 0.5) / 255.0, k as f64 / 255.0, (k as f64 - 0.5) * (1.0 / 255.0)] {
			for d in -4..=4 {
				let v = next_up(centre, d);
				f64_line(out, v);
				f64_line(out, -v);
			}
		}
	}
	for v in [
		0.0, -0.0, f64::NAN, -f64::NAN, f64::INFINITY, f64::NEG_INFINITY, f64::MIN_POSITIVE, -f64::MIN_POSITIVE, 5e-324, -5e-324,
		1.0, -1.0, 1.0 + f64::EPSILON, -1.0 - f64::EPSILON, 1.0 - f64::EPSILON / 2.0, f64::MAX, f64::MIN, 1e-30, 2.0, -2.0, 0.5, -0.5,
		f64::from_bits(0x7ff0000000000001), f64::from_bits(0xfff8000000000001),
	] {
		f64_line(out, v);
	}
	let nr = if thorough { 200_000 } else { 4000 };
	for _ in 0..nr {
		let v = match rng.below(4) {
			0 => f64::from_bits(rng.next_u64()),
			1 => rng.unit() * 2.0 - 1.0,
			2 => (rng.below(256) as f64 + rng.unit() - 0.5) / 255.0,
			_ => rng.gauss() * 0.4,
		};
		f64_line(out, v);
	}
	out.line(&format!("f64none ; {}", action_tok(&Action::from(None::<f64>))));
	out.line(&format!("f32none ; {}", action_tok(&Action::from(None::<f32>))));
	// exact transition points of the f64 step function, found by bisection on the bit patterns
	// (valid because the model proves monotonicity; the driver validates both sides of every step)
	for neg in [false, true] {
		let f = |bits: u64| -> u8 {
			let v = f64::from_bits(bits | if neg { 1u64 << 63 } else { 0 });
			match Action::from(v) {
				Action::Buy(k) | Action::Sell(k) => k,
				Action::None => 0,
			}
		};
		for k in 1..=255u8 {
			let (mut lo, mut hi) = (0u64, 0x3ff0_0000_0000_0000u64); // f(lo) < k <= f(hi)
			while hi - lo > 1 {
				let mid = lo + (hi - lo) / 2;
				if f(mid) >= k {
					hi = mid
				} else {
					lo = mid
				}
			}
			let s = if neg { 1u64 << 63 } else { 0 };
			f64_line(out, f64::from_bits(lo | s));
			f64_line(out, f64::from_bits(hi | s));
			out.count("f64_transitions");
		}
	}
	// f32: same neighbourhoods, then (thorough) every bit pattern with monotonicity checked in-process
	for k in 0..=256i64 {
		let c = ((k as f64 - 0.5) / 255.0) as f32;
		for d in -3i32..=3 {
			let v = f32::from_bits((c.to_bits() as i32 + d) as u32);
			f32_line(out, v);
			f32_line(out, -v);
		}
	}
	for v in [0.0f32, -0.0, f32::NAN, f32::INFINITY, f32::NEG_INFINITY, f32::MIN_POSITIVE, 1.0, -1.0, f32::MAX, f32::MIN, 1e-40] {
		f32_line(out, v);
	}
	if thorough {
		// positive then negative finite patterns in increasing magnitude; NaNs separately
		let mut violations = 0u64;
		let mut transitions = 0u64;
		for neg in [false, true] {
			let s = if neg { 1u32 << 31 } else { 0 };
			let mut prev: i32 = -1;
			for bits in 0..=0x7f80_0000u32 {
				let v = f32::from_bits(bits | s);
				let a = Action::from(v);
				let (k, right_sign) = match a {
					Action::Buy(k) => (k as i32, !neg),
					Action::Sell(k) => (k as i32, neg),
					Action::None => (-1, false),
				};
				if !right_sign || k < prev {
					violations += 1;
					if violations < 20 {
						out.line(&format!("sweepbad {:08x} ; {}", bits | s, action_tok(&a)));
					}
				}
				if k != prev {
					// both sides of every step go to the model
					if bits > 0 {
						f32_line(out, f32::from_bits((bits - 1) | s));
					}
					f32_line(out, v);
					transitions += 1;
					prev = k;
				}
			}
			for bits in 0x7f80_0001u32..=0x7fff_ffff {
				if Action::from(f32::from_bits(bits | s)) != Action::None {
					violations += 1;
					if violations < 20 {
						out.line(&format!("sweepbad {:08x} ; nan-not-none", bits | s));
					}
				}
			}
		}
		out.line(&format!("sweep ; violations={} transitions={}", violations, transitions));
		out.add("f32_sweep_patterns", 1u64 << 32);
	}
	out.line("E");
	out.sample("i8 -128..127; un <513 actions>; pair <513x513>; f64/f32 around (k±0.5)/255 ±4ulp, specials, random, bisected transition points".into());
}
