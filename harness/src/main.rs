//! Correspondence harness: runs the real yata code (linked from /repo's working tree) on
//! generated or replayed operation sequences and writes a transcript that the Lean driver
//! (/verif/lean/Driver.lean) replays through the formal model.
mod action;
mod api;
mod candle;
mod flat;
mod gen;
mod generated;
mod indicators;
mod malaw;
mod methods;
mod renko;
mod rng;
mod util;
mod window;

use util::*;

fn arg(args: &[String], name: &str) -> Option<String> {
	args.iter()
		.position(|a| a == name)
		.and_then(|i| args.get(i + 1).cloned())
}

fn main() {
	let args: Vec<String> = std::env::args().collect();
	if args.len() < 2 {
		eprintln!("usage: yata_harness <suite> [--seed N] [--tier quick|thorough] [--out file] [--stats file] [--replay file]");
		std::process::exit(2);
	}
	quiet_panics();
	let suite = args[1].clone();
	let seed: u64 = arg(&args, "--seed").and_then(|s| s.parse().ok()).unwrap_or(1);
	let thorough = arg(&args, "--tier").map_or(false, |t| t == "thorough");
	let out_path = arg(&args, "--out").unwrap_or_else(|| "-".into());
	let stats = arg(&args, "--stats");
	let replay = arg(&args, "--replay");
	set_compat(args.iter().any(|a| a == "--compat"));
	let mut out = Out::new(&out_path);
	out.line(&format!("P {}", yata::core::PeriodType::MAX));
	out.line(&format!("V {}", std::mem::size_of::<yata::core::ValueType>() * 8));

	if let Some(path) = replay {
		// a replay file is a transcript (or the op part of one); re-execute every case
		let text = std::fs::read_to_string(&path).expect("read replay");
		let mut cur: Option<(u64, String, Vec<String>)> = None;
		for line in text.lines() {
			let line = line.trim();
			if line.is_empty() || line.starts_with('#') {
				continue;
			}
			if let Some(rest) = line.strip_prefix("C ") {
				let mut it = rest.split_whitespace();
				let id: u64 = it.next().unwrap().parse().unwrap();
				let comp = it.next().unwrap().to_string();
				cur = Some((id, comp, vec![line.to_string()]));
			} else if line == "E" {
				if let Some((id, comp, lines)) = cur.take() {
					dispatch_replay(&mut out, &suite, id, &comp, &lines);
				}
			} else if let Some(c) = cur.as_mut() {
				c.2.push(line.to_string());
			}
		}
	} else {
		match suite.as_str() {
			"window" => window::suite(&mut out, seed, thorough),
			"action" => action::suite(&mut out, seed, thorough),
			"ctor" => methods::ctor_suite(&mut out, seed, thorough),
			"long" => methods::long_suite(&mut out, seed, thorough),
			"malaw" => malaw::suite(&mut out, seed, thorough),
			"candle" => candle::suite(&mut out, seed, thorough),
			"renko" => renko::suite(&mut out, seed, thorough),
			"api" => api::suite(&mut out, seed, thorough, &arg(&args, "--which").unwrap_or_else(|| "routes".into())),
			"ind" => {
				let filter: Vec<String> = arg(&args, "--indicators").map(|s| s.split(',').map(|x| x.to_string()).collect()).unwrap_or_default();
				indicators::suite(&mut out, seed, thorough, &filter, args.iter().any(|a| a == "--large-only"))
			}
			"indapi" => {
				let filter: Vec<String> = arg(&args, "--indicators").map(|s| s.split(',').map(|x| x.to_string()).collect()).unwrap_or_default();
				let which = arg(&args, "--which").unwrap_or_else(|| "interface".into());
				indicators::contract_suite(&mut out, seed, thorough, &which, &filter)
			}
			"methods" => {
				let filter: Vec<String> = arg(&args, "--methods")
					.map(|s| s.split(',').map(|x| x.to_string()).collect())
					.unwrap_or_default();
				methods::suite_w(&mut out, seed, thorough, &filter, args.iter().any(|a| a == "--wide"))
			}
			other => {
				eprintln!("unknown suite {other}");
				std::process::exit(2);
			}
		}
	}
	out.finish(stats.as_deref());
}

fn dispatch_replay(out: &mut Out, _suite: &str, id: u64, comp: &str, lines: &[String]) {
	match comp {
		"window" => window::run_program(out, id, &lines[1..].to_vec()),
		"method" => methods::replay_case(out, id, lines),
		"action" => action::replay_case(out, id, lines),
		"candle" => candle::replay_case(out, id, lines),
		"renko" => renko::replay_case(out, id, lines),
		"indicator" => indicators::replay_case(out, id, lines),
		"flags" => eprintln!("replay: case {id} holds harness-internal comparisons; re-run its suite (see the '# suite' line)"),
		other => panic!("replay: unknown component {other}"),
	}
}
