//! C15: moving averages are averages — metamorphic relations on the real code:
//! affine equivariance, superposition (linear kinds), containment in the hull of the values given
//! (non-negative kinds), reproduction of constants, impulse response.
use crate::gen;
use crate::methods::V;
use crate::rng::Rng;
use crate::util::*;
use std::str::FromStr;
use yata::core::{Method, MovingAverageConstructor, PeriodType};
use yata::helpers::MA;
use yata::methods::{Conv, VWMA};

const KINDS: [&str; 15] = ["sma", "wma", "hma", "rma", "ema", "dma", "dema", "tma", "tema", "wsma", "smm", "swma", "trima", "linreg", "vidya"];
const LINEAR: [&str; 13] = ["sma", "wma", "hma", "rma", "ema", "dma", "dema", "tma", "tema", "wsma", "swma", "trima", "linreg"];
const NONNEG: [&str; 11] = ["sma", "wma", "swma", "trima", "ema", "dma", "tma", "rma", "wsma", "smm", "vidya"];

fn flag(out: &mut Out, name: &str, what: &str, ok: bool, detail: String) {
	// the signature carries the kind only; the length is part of the detail
	let kind = name.split('-').next().unwrap_or(name);
	out.line(&format!("F {} {} ; ok=i{} {}", kind, what, ok as u8, if ok { String::new() } else { format!("[{}] {}", name, detail.replace(';', ",")) }));
	out.count(&format!("law:{}", what));
}

fn run_ma(kind: &str, len: u64, init: V, xs: &[V]) -> Option<Vec<V>> {
	let ma = MA::from_str(&format!("{}-{}", kind, len)).ok()?;
	let mut m = ma.init(init).ok()?;
	guard(|| xs.iter().map(|x| m.next(x)).collect::<Vec<V>>())
}

/// tolerance of DESIGN §3.2 at the scale `m` after `t` steps with total window `n`
fn allowance(t: usize, n: u64, m: f64) -> f64 {
	let eps = if std::mem::size_of::<V>() == 4 { 2f64.powi(-23) } else { 2f64.powi(-52) };
	1024.0 * eps * (t as f64 + 3.0 * n as f64 + 1.0) * 8.0 * m
}

pub fn suite(out: &mut Out, seed: u64, thorough: bool) {
	let mut rng = Rng::new(seed);
	let max = gen_max();
	out.line("C 0 flags malaw");
	let lens: Vec<u64> = if thorough { (1..max.min(255)).collect() } else { vec![1, 2, 3, 4, 5, 8, 13, 31, 100, 127, 254] };
	for kind in KINDS {
		let mut deck = gen::Deck::values();
		let mut dr = rng.fork(7919 + kind.len() as u64);
		for &len in &lens {
			let mut r = rng.fork(len * 131 + kind.len() as u64);
			let class = deck.draw(&mut dr);
			let n = 120 + 2 * len as usize;
			let xs: Vec<V> = gen::stream(&mut r, n, class).into_iter().map(|x| x as V).collect();
			let ys: Vec<V> = gen::stream(&mut r, n, "walk").into_iter().map(|x| x as V).collect();
			let Some(ox) = run_ma(kind, len, xs[0], &xs) else { continue };
			let mx = xs.iter().fold(0.0f64, |a, x| a.max((*x as f64).abs()));
			let my = ys.iter().fold(0.0f64, |a, x| a.max((*x as f64).abs()));
			let name = format!("{}-{}", kind, len);
			// affine map a*x+b, including negative a
			for (a, b) in [(2.0, 3.0), (-1.5, 10.0), (0.001, -7.0), (-1.0, 0.0)] {
				let zs: Vec<V> = xs.iter().map(|x| ((a * *x as f64) + b) as V).collect();
				// Vidya's smoothing depends discontinuously on the inputs (|up-dn|/(up+dn) of the changes): the law is about the
				// stream a*x+b itself, so it is checked only where the floating-point map loses no information about x
				if kind == "vidya" && !xs.iter().zip(zs.iter()).all(|(x, z)| (((*z as f64) - b) / a) as V == *x) {
					out.count("affine_skipped_inexact_map");
					continue;
				}
				if let Some(oz) = run_ma(kind, len, zs[0], &zs) {
					let scale = a.abs() * mx + b.abs();
					let mut bad = None;
					for t in 0..n {
						let want = a * ox[t] as f64 + b;
						// the inputs a*x+b were rounded: one ulp of the scale per value is part of the allowance
						if !((oz[t] as f64 - want).abs() <= allowance(t, len, scale)) {
							bad = Some(format!("step {}: MA(a*x+b)={} but a*MA(x)+b={} (a={}, b={})", t, oz[t], want, a, b));
							break;
						}
					}
					flag(out, &name, "affine", bad.is_none(), bad.unwrap_or_default());
				}
			}
			// constant reproduction
			let c = xs[n / 2];
			if let Some(oc) = run_ma(kind, len, c, &vec![c; 300]) {
				let bad = oc.iter().position(|o| !((*o as f64 - c as f64).abs() <= allowance(1, len, (c as f64).abs())));
				flag(out, &name, "constant", bad.is_none(), format!("constant {} gives {:?}", c, bad.map(|i| oc[i])));
			}
			// superposition for the linear kinds
			if LINEAR.contains(&kind) {
				let ss: Vec<V> = xs.iter().zip(ys.iter()).map(|(x, y)| x + y).collect();
				if let (Some(oy), Some(os)) = (run_ma(kind, len, ys[0], &ys), run_ma(kind, len, ss[0], &ss)) {
					let mut bad = None;
					for t in 0..n {
						let want = ox[t] as f64 + oy[t] as f64;
						if !((os[t] as f64 - want).abs() <= allowance(t, len, mx + my)) {
							bad = Some(format!("step {}: MA(x+y)={} but MA(x)+MA(y)={}", t, os[t], want));
							break;
						}
					}
					flag(out, &name, "superposition", bad.is_none(), bad.unwrap_or_default());
				}
			}
			// hull of the values given (strict: only the rounding allowance)
			if NONNEG.contains(&kind) {
				let mut lo = xs[0] as f64;
				let mut hi = xs[0] as f64;
				let mut bad = None;
				for t in 0..n {
					lo = lo.min(xs[t] as f64);
					hi = hi.max(xs[t] as f64);
					let a = allowance(t, len, hi.abs().max(lo.abs()));
					let o = ox[t] as f64;
					if !(o >= lo - a && o <= hi + a) {
						bad = Some(format!("step {}: output {} outside the hull [{}, {}] of the values given", t, o, lo, hi));
						break;
					}
				}
				flag(out, &name, &"hull", bad.is_none(), bad.unwrap_or_default());
			}
			// the regimes where running sums leave residue: volatile -> exactly flat -> volatile, scale jumps
			if NONNEG.contains(&kind) {
				for cls in ["flat_regime", "scale_jump", "plateaus"] {
					let zs: Vec<V> = gen::stream(&mut r, 400 + 3 * len as usize, cls).into_iter().map(|x| x as V).collect();
					if let Some(oz) = run_ma(kind, len, zs[0], &zs) {
						let (mut lo, mut hi) = (zs[0] as f64, zs[0] as f64);
						let mut bad = None;
						for t in 0..zs.len() {
							lo = lo.min(zs[t] as f64);
							hi = hi.max(zs[t] as f64);
							let a = allowance(t, len, hi.abs().max(lo.abs()));
							let o = oz[t] as f64;
							if !(o >= lo - a && o <= hi + a) {
								bad = Some(format!("{} step {}: output {} outside the hull [{}, {}]", cls, t, o, lo, hi));
								break;
							}
						}
						flag(out, &name, &"hull", bad.is_none(), bad.unwrap_or_default());
					}
				}
			}
			// impulse response sums to one and (non-negative kinds) is non-negative
			if LINEAR.contains(&kind) || kind == "smm" {
				let mut imp = vec![0.0 as V; 6 * len as usize + 40];
				imp[0] = 1.0;
				if let Some(oi) = run_ma(kind, len, 0.0, &imp) {
					let sum: f64 = oi.iter().map(|x| *x as f64).sum();
					let finite_window = !["ema", "dma", "tma", "dema", "tema", "rma", "wsma"].contains(&kind);
					if kind != "smm" && finite_window {
						flag(out, &name, "impulse_sum", (sum - 1.0).abs() <= 1e-9, format!("impulse response sums to {}", sum));
					}
					if NONNEG.contains(&kind) {
						let neg = oi.iter().position(|x| (*x as f64) < -1e-12);
						flag(out, &name, "impulse_nonneg", neg.is_none(), format!("negative weight {:?}", neg.map(|i| oi[i])));
					}
				}
			}
		}
	}
	// Conv with non-negative weights and VWMA with non-negative volumes: convex combinations
	for rep in 0..(if thorough { 60 } else { 12 }) {
		let mut r = rng.fork(900 + rep);
		let len = 1 + r.below(30) as usize;
		let w: Vec<V> = (0..len).map(|_| (r.unit() + 0.01) as V).collect();
		let xs: Vec<V> = gen::stream(&mut r, 150, gen::CLASSES[rep as usize % gen::CLASSES.len()]).into_iter().map(|x| x as V).collect();
		if let Some(Ok(mut m)) = guard(|| Conv::new(w.clone(), &xs[0])) {
			let o: Vec<V> = xs.iter().map(|x| m.next(x)).collect();
			let (mut lo, mut hi) = (xs[0] as f64, xs[0] as f64);
			let mut bad = None;
			for t in 0..xs.len() {
				lo = lo.min(xs[t] as f64);
				hi = hi.max(xs[t] as f64);
				let a = allowance(t, len as u64, hi.abs().max(lo.abs()));
				if !((o[t] as f64) >= lo - a && (o[t] as f64) <= hi + a) {
					bad = Some(format!("step {}: {} outside [{}, {}]", t, o[t], lo, hi));
					break;
				}
			}
			flag(out, "conv", "hull", bad.is_none(), bad.unwrap_or_default());
		}
		let vols: Vec<V> = xs.iter().map(|_| (0.5 + 100.0 * r.unit()) as V).collect();
		let ps: Vec<(V, V)> = xs.iter().cloned().zip(vols.iter().cloned()).collect();
		let l = (1 + r.below(40)) as PeriodType;
		if let Some(Ok(mut m)) = guard(|| VWMA::new(l, &ps[0])) {
			let o: Vec<V> = ps.iter().map(|x| m.next(x)).collect();
			let (mut lo, mut hi) = (xs[0] as f64, xs[0] as f64);
			let mut bad = None;
			for t in 0..xs.len() {
				lo = lo.min(xs[t] as f64);
				hi = hi.max(xs[t] as f64);
				let a = allowance(t, l as u64, hi.abs().max(lo.abs()));
				if !((o[t] as f64) >= lo - a && (o[t] as f64) <= hi + a) {
					bad = Some(format!("step {}: {} outside [{}, {}]", t, o[t], lo, hi));
					break;
				}
			}
			flag(out, "vwma", "hull", bad.is_none(), bad.unwrap_or_default());
		}
	}
	out.line("E");
	out.sample("15 MA kinds x lengths: affine maps (2,3),(-1.5,10),(0.001,-7),(-1,0); constants; x,y,x+y; hull; impulse response".into());
}
