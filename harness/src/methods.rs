//! Generic driver for every `yata::core::Method`: runs `new` + `next…` under panic capture and
//! writes inputs, outputs and the serde-flattened internal state to the transcript.
use crate::flat::flat_string;
use crate::gen;
use crate::rng::Rng;
use crate::util::*;
use serde::Serialize;
use yata::core::{Action, Candle, Error, Method, PeriodType, ValueType};
use yata::methods::*;

pub type V = ValueType;

pub fn vtok(x: V) -> String {
	format!("f{}", fbits(x as f64))
}

pub trait Inp: Sized {
	fn from_f(v: &[f64]) -> Self;
	fn toks(&self) -> String;
}
impl Inp for V {
	fn from_f(v: &[f64]) -> Self {
		v[0] as V
	}
	fn toks(&self) -> String {
		vtok(*self)
	}
}
impl Inp for (V, V) {
	fn from_f(v: &[f64]) -> Self {
		(v[0] as V, v[1] as V)
	}
	fn toks(&self) -> String {
		format!("{} {}", vtok(self.0), vtok(self.1))
	}
}
impl Inp for Candle {
	fn from_f(v: &[f64]) -> Self {
		Candle { open: v[0] as V, high: v[1] as V, low: v[2] as V, close: v[3] as V, volume: v[4] as V }
	}
	fn toks(&self) -> String {
		format!("{} {} {} {} {}", vtok(self.open), vtok(self.high), vtok(self.low), vtok(self.close), vtok(self.volume))
	}
}

pub trait OutTok {
	fn toks(&self) -> String;
}
impl OutTok for V {
	fn toks(&self) -> String {
		vtok(*self)
	}
}
impl OutTok for PeriodType {
	fn toks(&self) -> String {
		format!("i{}", self)
	}
}
pub fn action_tok(a: &Action) -> String {
	match a {
		Action::Buy(k) => format!("aB{}", k),
		Action::Sell(k) => format!("aS{}", k),
		Action::None => "aN".into(),
	}
}
impl OutTok for Action {
	fn toks(&self) -> String {
		action_tok(self)
	}
}
impl OutTok for Candle {
	fn toks(&self) -> String {
		Inp::toks(self)
	}
}
impl OutTok for Option<Candle> {
	fn toks(&self) -> String {
		match self {
			None => "o0".into(),
			Some(c) => format!("o1 {}", Inp::toks(c)),
		}
	}
}

pub fn err_kind(e: &Error) -> &'static str {
	match e {
		Error::SourceParse(_) => "SourceParse",
		Error::ParameterParse(_, _) => "ParameterParse",
		Error::MovingAverageParse => "MovingAverageParse",
		Error::WrongMethodParameters => "WrongMethodParameters",
		Error::WrongConfig => "WrongConfig",
		Error::InvalidCandles => "InvalidCandles",
		Error::Other(_) => "Other",
		_ => "Unknown",
	}
}

#[derive(Clone, Debug)]
pub struct Case {
	pub name: String,
	pub params: Vec<String>,
	pub init: Vec<f64>,
	pub inputs: Vec<Vec<f64>>,
	/// write the internal state every `state_every` steps (0 = never)
	pub state_every: usize,
}

fn drive<M, F>(out: &mut Out, id: u64, case: &Case, ctor: F)
where
	M: Method + Serialize,
	M::Input: Inp,
	M::Output: OutTok,
	F: FnOnce(&M::Input) -> Result<M, Error>,
{
	drive_with::<M, M::Input, F, _>(out, id, case, ctor, |x| x)
}

/// methods whose input is the unsized `dyn OHLCV`: fed with `Candle`s
fn drive_ohlcv<M, F>(out: &mut Out, id: u64, case: &Case, ctor: F)
where
	M: Method<Input = dyn yata::core::OHLCV> + Serialize,
	M::Output: OutTok,
	F: FnOnce(&dyn yata::core::OHLCV) -> Result<M, Error>,
{
	drive_with::<M, Candle, F, _>(out, id, case, ctor, |x| x as &dyn yata::core::OHLCV)
}

fn drive_with<M, I, F, G>(out: &mut Out, id: u64, case: &Case, ctor: F, conv: G)
where
	M: Method + Serialize,
	I: Inp,
	M::Output: OutTok,
	F: FnOnce(&M::Input) -> Result<M, Error>,
	G: Fn(&I) -> &M::Input,
{
	out.line(&format!("C {} method {} {}", id, case.name, case.params.join(" ")));
	let init = I::from_f(&case.init);
	let r = guard(|| ctor(conv(&init)));
	let mut m = match r {
		None => {
			out.line(&format!("N {} ; P ;", init.toks()));
			out.count("ctor:panic");
			out.line("E");
			return;
		}
		Some(Err(e)) => {
			out.line(&format!("N {} ; err:{} ;", init.toks(), err_kind(&e)));
			out.count("ctor:err");
			out.line("E");
			return;
		}
		Some(Ok(m)) => m,
	};
	out.line(&format!("N {} ; ok ; {}", init.toks(), flat_string(&m)));
	out.count("ctor:ok");
	let n = case.inputs.len();
	for (i, raw) in case.inputs.iter().enumerate() {
		let x = I::from_f(raw);
		match guard(|| m.next(conv(&x))) {
			None => {
				out.line(&format!("X {} ; P ;", x.toks()));
				out.count("next:panic");
				break;
			}
			Some(o) => {
				let st = if case.state_every > 0 && (i % case.state_every == 0 || i + 1 == n) {
					flat_string(&m)
				} else {
					String::new()
				};
				out.line(&format!("X {} ; {} ; {}", x.toks(), o.toks(), st));
			}
		}
	}
	out.add("steps", n as u64);
	out.line("E");
}

fn pt(s: &str) -> PeriodType {
	s.parse::<u64>().ok().and_then(|v| PeriodType::try_from(v).ok()).expect("period parameter fits PeriodType")
}

pub const SCALAR_METHODS: &[&str] = &[
	"sma", "wma", "ema", "dma", "tma", "dema", "tema", "rma", "wsma", "swma", "trima", "hma", "linreg", "vidya",
	"integral", "derivative", "momentum", "roc", "past", "stdev", "mad", "medad", "cci", "linvol", "highest",
	"lowest", "hldelta", "hindex", "lindex", "smm",
];

pub fn run_case(out: &mut Out, id: u64, case: &Case) {
	let p = &case.params;
	let p0 = || pt(&p[0]);
	let p1 = || pt(&p[1]);
	out.count(&format!("method:{}", case.name));
	match case.name.as_str() {
		"sma" => drive::<SMA, _>(out, id, case, |v| SMA::new(p0(), v)),
		"wma" => drive::<WMA, _>(out, id, case, |v| WMA::new(p0(), v)),
		"ema" => drive::<EMA, _>(out, id, case, |v| EMA::new(p0(), v)),
		"dma" => drive::<DMA, _>(out, id, case, |v| DMA::new(p0(), v)),
		"tma" => drive::<TMA, _>(out, id, case, |v| TMA::new(p0(), v)),
		"dema" => drive::<DEMA, _>(out, id, case, |v| DEMA::new(p0(), v)),
		"tema" => drive::<TEMA, _>(out, id, case, |v| TEMA::new(p0(), v)),
		"rma" => drive::<RMA, _>(out, id, case, |v| RMA::new(p0(), v)),
		"wsma" => drive::<WSMA, _>(out, id, case, |v| WSMA::new(p0(), v)),
		"swma" => drive::<SWMA, _>(out, id, case, |v| SWMA::new(p0(), v)),
		"trima" => drive::<TRIMA, _>(out, id, case, |v| TRIMA::new(p0(), v)),
		"hma" => drive::<HMA, _>(out, id, case, |v| HMA::new(p0(), v)),
		"linreg" => drive::<LinReg, _>(out, id, case, |v| LinReg::new(p0(), v)),
		"conv" => {
			let w: Vec<V> = p.iter().map(|s| parse_fbits(s.trim_start_matches('f')) as V).collect();
			drive::<Conv, _>(out, id, case, |v| Conv::new(w, v))
		}
		"vwma" => drive::<VWMA, _>(out, id, case, |v| VWMA::new(p0(), v)),
		"vidya" => drive::<Vidya, _>(out, id, case, |v| Vidya::new(p0(), v)),
		"integral" => drive::<Integral, _>(out, id, case, |v| Integral::new(p0(), v)),
		"derivative" => drive::<Derivative, _>(out, id, case, |v| Derivative::new(p0(), v)),
		"momentum" => drive::<Momentum, _>(out, id, case, |v| Momentum::new(p0(), v)),
		"roc" => drive::<RateOfChange, _>(out, id, case, |v| RateOfChange::new(p0(), v)),
		"past" => drive::<Past<V>, _>(out, id, case, |v| Past::new(p0(), v)),
		"stdev" => drive::<StDev, _>(out, id, case, |v| StDev::new(p0(), v)),
		"mad" => drive::<MeanAbsDev, _>(out, id, case, |v| MeanAbsDev::new(p0(), v)),
		"medad" => drive::<MedianAbsDev, _>(out, id, case, |v| MedianAbsDev::new(p0(), v)),
		"cci" => drive::<CCI, _>(out, id, case, |v| CCI::new(p0(), v)),
		"linvol" => drive::<LinearVolatility, _>(out, id, case, |v| LinearVolatility::new(p0(), v)),
		"tsi" => drive::<TSI, _>(out, id, case, |v| TSI::new(p0(), p1(), v)),
		"highest" => drive::<Highest, _>(out, id, case, |v| Highest::new(p0(), v)),
		"lowest" => drive::<Lowest, _>(out, id, case, |v| Lowest::new(p0(), v)),
		"hldelta" => drive::<HighestLowestDelta, _>(out, id, case, |v| HighestLowestDelta::new(p0(), v)),
		"hindex" => drive::<HighestIndex, _>(out, id, case, |v| HighestIndex::new(p0(), v)),
		"lindex" => drive::<LowestIndex, _>(out, id, case, |v| LowestIndex::new(p0(), v)),
		"smm" => drive::<SMM, _>(out, id, case, |v| SMM::new(p0(), v)),
		"cross_above" => drive::<CrossAbove, _>(out, id, case, |v| CrossAbove::new((), v)),
		"cross_under" => drive::<CrossUnder, _>(out, id, case, |v| CrossUnder::new((), v)),
		"cross" => drive::<Cross, _>(out, id, case, |v| Cross::new((), v)),
		"upper_rev" => drive::<UpperReversalSignal, _>(out, id, case, |v| UpperReversalSignal::new(p0(), p1(), v)),
		"lower_rev" => drive::<LowerReversalSignal, _>(out, id, case, |v| LowerReversalSignal::new(p0(), p1(), v)),
		"reversal" => drive::<ReversalSignal, _>(out, id, case, |v| ReversalSignal::new(p0(), p1(), v)),
		"adi" => drive_ohlcv::<ADI, _>(out, id, case, |v| ADI::new(p0(), v)),
		"tr" => drive_ohlcv::<TR, _>(out, id, case, |v| TR::new(v)),
		"heikin" => drive_ohlcv::<HeikinAshi, _>(out, id, case, |v| HeikinAshi::new((), v)),
		"collapse" => {
			let period: usize = p[0].parse().unwrap();
			drive::<CollapseTimeframe<Candle>, _>(out, id, case, |v| CollapseTimeframe::new(period, v))
		}
		other => panic!("unknown method {other}"),
	}
}

/// Rust-vs-Rust: the batch `collapse_timeframe` of a sequence against the streaming method and
/// against a from-scratch aggregation (first open, max high, min low, last close, summed volume)
pub fn collapse_batch_check(out: &mut Out, id: u64, period: usize, cs: &[Candle]) {
	use yata::core::Sequence;
	out.line(&format!("C {} flags collapse_batch {}", id, period));
	let streamed: Vec<Candle> = {
		let mut m = CollapseTimeframe::<Candle>::new(period, &cs[0]).unwrap();
		cs.iter().filter_map(|c| m.next(c)).collect()
	};
	let batch = guard(|| cs.to_vec().collapse_timeframe(period, false));
	let oracle = |w: &[Candle]| Candle {
		open: w[0].open,
		high: w.iter().fold(V::NEG_INFINITY, |a, c| a.max(c.high)),
		low: w.iter().fold(V::INFINITY, |a, c| a.min(c.low)),
		close: w[w.len() - 1].close,
		volume: w.iter().skip(1).fold(w[0].volume, |a, c| a + c.volume),
	};
	let scratch: Vec<Candle> = cs.chunks_exact(period).map(oracle).collect();
	let ok1 = batch.as_ref().map_or(false, |b| *b == streamed);
	let ok2 = streamed == scratch;
	let cont = guard(|| cs.to_vec().collapse_timeframe(period, true));
	let scratch_c: Vec<Candle> = cs.windows(period).map(oracle).collect();
	let ok3 = cont.map_or(false, |c| c == scratch_c);
	out.line(&format!("F batch_eq_stream n={} ; ok=i{}", streamed.len(), ok1 as u8));
	out.line(&format!("F stream_eq_definition n={} expected={} ; ok=i{}", streamed.len(), cs.len() / period, (ok2 && streamed.len() == cs.len() / period) as u8));
	out.line(&format!("F continuous_eq_definition n={} ; ok=i{}", scratch_c.len(), ok3 as u8));
	out.line("E");
	out.count("collapse_batch");
}

/// rebuild a case from replayed transcript lines
pub fn replay_case(out: &mut Out, id: u64, lines: &[String]) {
	let head: Vec<&str> = lines[0].split_whitespace().collect();
	// C <id> method <name> <params…>
	let name = head[3].to_string();
	let params: Vec<String> = head[4..].iter().map(|s| s.to_string()).collect();
	let mut init = Vec::new();
	let mut inputs = Vec::new();
	for l in &lines[1..] {
		let t = op_tokens(l);
		if t.is_empty() {
			continue;
		}
		let vals: Vec<f64> = t[1..].iter().map(|s| parse_fbits(s.trim_start_matches('f'))).collect();
		match t[0].as_str() {
			"N" => init = vals,
			"X" => inputs.push(vals),
			_ => {}
		}
	}
	let case = Case { name, params, init, inputs, state_every: 1 };
	run_case(out, id, &case);
}

/// C07: one long run of a scalar method; at the sampled late positions a *local* case is written:
/// the last `back` inputs and the output the long-running instance produced (a fresh model instance
/// primed with them must reproduce it), or — `with_state` — the serialized state before and after
/// the step (one exact model step from the implementation's own state: L-step).
fn long_drive<M, F>(out: &mut Out, id: &mut u64, name: &str, params: &[String], ctor: F, xs_gen: &mut dyn FnMut(usize) -> f64, total: usize, positions: &[usize], back: usize, with_state: bool)
where
	M: Method<Input = V> + Serialize,
	M::Output: OutTok,
	F: FnOnce(&V) -> Result<M, Error>,
{
	let x0 = xs_gen(0) as V;
	let mut m = match guard(|| ctor(&x0)) {
		Some(Ok(m)) => m,
		_ => return,
	};
	let mut ring: std::collections::VecDeque<V> = std::collections::VecDeque::with_capacity(back + 2);
	let mut mag: f64 = (x0 as f64).abs();
	let mut pi = 0;
	let mut prev_state = String::new();
	for t in 0..total {
		let x = xs_gen(t) as V;
		mag = mag.max((x as f64).abs());
		if ring.len() == back + 1 {
			ring.pop_front();
		}
		ring.push_back(x);
		let sample = pi < positions.len() && positions[pi] == t;
		if sample {
			// the state the sampled step starts from
			prev_state = flat_string(&m);
		}
		let o = match guard(|| m.next(&x)) {
			Some(o) => o,
			None => {
				out.line(&format!("C {} method {} {} t0={} M=f{}", *id, name, params.join(" "), t, fbits(mag)));
				out.line(&format!("X {} ; P ;", vtok(x)));
				out.line("E");
				*id += 1;
				return;
			}
		};
		if sample {
			pi += 1;
			if with_state {
				out.line(&format!("C {} method {} {} t0={} M=f{}", *id, name, params.join(" "), t, fbits(mag)));
				out.line(&format!("S {}", prev_state));
				out.line(&format!("X {} ; {} ; {}", vtok(x), o.toks(), flat_string(&m)));
				prev_state = String::new();
			} else if ring.len() == back + 1 {
				let t0 = t + 1 - back;
				out.line(&format!("C {} method {} {} t0={} M=f{}", *id, name, params.join(" "), t0, fbits(mag)));
				out.line(&format!("N {} ; ok ;", vtok(ring[0])));
				for (j, y) in ring.iter().enumerate().skip(1) {
					if j == back {
						// the implementation's own pre-state and post-state of the sampled step: per-step tie inside the local case
						out.line(&format!("T {}", prev_state));
						out.line(&format!("X {} ; {} ; {}", vtok(*y), o.toks(), flat_string(&m)));
					} else {
						out.line(&format!("X {} ; ? ;", vtok(*y)));
					}
				}
			} else {
				continue;
			}
			out.line("E");
			out.count("late_positions");
			*id += 1;
		}
	}
	out.add("long_steps", total as u64);
}

pub fn long_suite(out: &mut Out, seed: u64, thorough: bool) {
	let mut rng = Rng::new(seed);
	let total: usize = if thorough { 2_000_000 } else { 70_000 };
	let mut id = 0u64;
	// late positions: dense around multiples of 255 / 256 / 65535 / 65536, the end, and random ones
	let positions = |rng: &mut Rng, total: usize| -> Vec<usize> {
		let mut v: Vec<usize> = Vec::new();
		for base in [255usize, 256, 510, 512, 65535, 65536, 131070, total / 2, total - 1] {
			for d in [-2i64, -1, 0, 1, 2, 3] {
				let p = base as i64 + d;
				if p > 0 && (p as usize) < total {
					v.push(p as usize);
				}
			}
		}
		for _ in 0..(if total > 100_000 { 40 } else { 20 }) {
			v.push(300 + rng.below(total as u64 - 300) as usize);
		}
		v.sort();
		v.dedup();
		v
	};
	let lens: Vec<u64> = if thorough { vec![1, 2, 3, 5, 14, 50, 127, 254] } else { vec![2, 5, 14, 100] };
	for name in SCALAR_METHODS.iter().chain(["upper_rev", "lower_rev", "reversal", "tsi"].iter()) {
		for &len in &lens {
			if len >= gen_max() {
				continue;
			}
			let mut r = rng.fork(id + 17);
			let mut ps = positions(&mut r, total);
			// the steps at which the window has just become entirely flat in the episodes of regime 2 (below): that is where a
			// quotient of two residues is first used
			{
				let seg = total / 7 + 1;
				let cycle = 28 + 3 * len as usize;
				let every = (seg / cycle / 40).max(1);
				let mut k = 0;
				while (k + 1) * cycle < seg {
					for d in [19usize, 20] {
						let p = 2 * seg + k * cycle + d + len as usize;
						if p < total {
							ps.push(p);
						}
					}
					k += every;
				}
				// and a spread of positions inside the small-integer regime 5 (ties at the moment of a rescan)
				for j in 0..16usize {
					let p = 5 * seg + 50 + j * (seg.saturating_sub(100)) / 16;
					if p < total {
						ps.push(p);
					}
				}
				ps.sort();
				ps.dedup();
			}
			// regimes: volatile -> exactly flat -> volatile -> scale jump -> walk, repeated; positive for roc
			let mut x = 100.0f64;
			let mut rr = r.fork(3);
			let seg = total / 7 + 1;
			let positive = *name == "roc";
			let mut gen_x = move |t: usize| -> f64 {
				let cycle = 28 + 3 * len as usize;
				match (t / seg) % 7 {
					0 | 6 => x += rr.gauss(),
					// episodes: a short burst on a two-decimal price grid, then flat for longer than any window of this
					// length — every episode leaves fresh rounding residue in the running sums
					2 => {
						if (t % seg) % cycle < 20 {
							// log-normal moves of about a third of the level: neighbouring values then lie in different binades often
							// enough for the residues of two running sums to come out equal and opposite (measured: about one episode
							// in twenty for windows of 5 and more, none at all for moves below a tenth of the level)
							if !(1.0..=1.0e4).contains(&x) {
								x = 100.0 * (0.5 + rr.unit());
							}
							x = ((x * (0.35 * rr.gauss()).exp()).max(0.05) * 100.0).round() / 100.0;
						}
					}
					1 => {}
					3 => x = 1e6 * (1.0 + 0.01 * rr.gauss()),
					4 => x = 1e-3 * (1.0 + 0.01 * rr.gauss()),
					_ => x = 100.0 + (rr.below(5) as f64),
				}
				if positive && x < 1.0 {
					x = 1.0 + rr.unit();
				}
				x
			};
			let recursive = ["ema", "dma", "tma", "dema", "tema", "rma", "wsma", "tsi", "vidya"].contains(name);
			let p1 = (len % 9 + 1).to_string();
			let (params, back): (Vec<String>, usize) = match *name {
				"upper_rev" | "lower_rev" | "reversal" => {
					let (l, rgt) = (len.min(100), (len % 9 + 1).min(100));
					if l + rgt + 2 >= gen_max() {
						continue;
					}
					(vec![l.to_string(), rgt.to_string()], 3 * (l + rgt + 1) as usize + 2)
				}
				"tsi" => (vec![p1.clone(), len.to_string()], 1),
				"hma" | "trima" | "swma" => (vec![len.to_string()], 3 * len as usize + 4),
				_ => (vec![len.to_string()], len as usize + 1),
			};
			let l = pt(&params[0]);
			let l2 = || pt(&params[1]);
			macro_rules! go {
				($t:ty, $ctor:expr) => {
					long_drive::<$t, _>(out, &mut id, name, &params, $ctor, &mut gen_x, total, &ps, back, recursive)
				};
			}
			match *name {
				"sma" => go!(SMA, |v| SMA::new(l, v)),
				"wma" => go!(WMA, |v| WMA::new(l, v)),
				"ema" => go!(EMA, |v| EMA::new(l, v)),
				"dma" => go!(DMA, |v| DMA::new(l, v)),
				"tma" => go!(TMA, |v| TMA::new(l, v)),
				"dema" => go!(DEMA, |v| DEMA::new(l, v)),
				"tema" => go!(TEMA, |v| TEMA::new(l, v)),
				"rma" => go!(RMA, |v| RMA::new(l, v)),
				"wsma" => go!(WSMA, |v| WSMA::new(l, v)),
				"swma" => go!(SWMA, |v| SWMA::new(l, v)),
				"trima" => go!(TRIMA, |v| TRIMA::new(l, v)),
				"hma" => go!(HMA, |v| HMA::new(l, v)),
				"linreg" => go!(LinReg, |v| LinReg::new(l, v)),
				"vidya" => go!(Vidya, |v| Vidya::new(l, v)),
				"integral" => go!(Integral, |v| Integral::new(l, v)),
				"derivative" => go!(Derivative, |v| Derivative::new(l, v)),
				"momentum" => go!(Momentum, |v| Momentum::new(l, v)),
				"roc" => go!(RateOfChange, |v| RateOfChange::new(l, v)),
				"past" => go!(Past<V>, |v| Past::new(l, v)),
				"stdev" => go!(StDev, |v| StDev::new(l, v)),
				"mad" => go!(MeanAbsDev, |v| MeanAbsDev::new(l, v)),
				"medad" => go!(MedianAbsDev, |v| MedianAbsDev::new(l, v)),
				"cci" => go!(CCI, |v| CCI::new(l, v)),
				"linvol" => go!(LinearVolatility, |v| LinearVolatility::new(l, v)),
				"highest" => go!(Highest, |v| Highest::new(l, v)),
				"lowest" => go!(Lowest, |v| Lowest::new(l, v)),
				"hldelta" => go!(HighestLowestDelta, |v| HighestLowestDelta::new(l, v)),
				"hindex" => go!(HighestIndex, |v| HighestIndex::new(l, v)),
				"lindex" => go!(LowestIndex, |v| LowestIndex::new(l, v)),
				"smm" => go!(SMM, |v| SMM::new(l, v)),
				"tsi" => go!(TSI, |v| TSI::new(l, l2(), v)),
				"upper_rev" => go!(UpperReversalSignal, |v| UpperReversalSignal::new(l, l2(), v)),
				"lower_rev" => go!(LowerReversalSignal, |v| LowerReversalSignal::new(l, l2(), v)),
				"reversal" => go!(ReversalSignal, |v| ReversalSignal::new(l, l2(), v)),
				_ => {}
			}
		}
	}
	out.add("cases", id);
	out.sample(format!("{} steps per instance; regimes volatile/flat/volatile/1e6/1e-3/plateau/volatile; local cases at positions around 255,256,510,512,65535,65536, the middle, the end and 20-40 random late positions", total));
}

/// C10: every value of PeriodType for every length parameter (all pairs for two-parameter methods in
/// the thorough tier, a boundary-dense subset otherwise); accepted instances are then driven
pub fn ctor_suite(out: &mut Out, seed: u64, thorough: bool) {
	let mut rng = Rng::new(seed);
	let max = gen_max();
	let all: Vec<u64> = if max <= 255 { (0..=255).collect() } else { vec![0, 1, 2, 3, 4, 127, 128, 254, 255, 256, 257, max / 2 - 1, max / 2, max / 2 + 1, max - 2, max - 1, max] };
	let mut id = 0u64;
	let xs = gen::stream(&mut rng, 24, "walk");
	let cs = gen::candles(&mut rng, 24, "walk");
	let rows = candle_rows(&cs);
	for name in SCALAR_METHODS {
		for &len in &all {
			let case = Case { name: name.to_string(), params: vec![len.to_string()], init: vec![xs[0]], inputs: f1(&xs), state_every: 0 };
			run_case(out, id, &case);
			id += 1;
		}
	}
	for &len in &all {
		let ps: Vec<Vec<f64>> = xs.iter().map(|x| vec![*x, 2.0]).collect();
		run_case(out, id, &Case { name: "vwma".into(), params: vec![len.to_string()], init: ps[0].clone(), inputs: ps, state_every: 0 });
		id += 1;
		run_case(out, id, &Case { name: "adi".into(), params: vec![len.to_string()], init: rows[0].clone(), inputs: rows.clone(), state_every: 0 });
		id += 1;
		// Conv with `len` weights
		if len <= 300 {
			let w: Vec<String> = (0..len).map(|_| format!("f{}", fbits(1.0))).collect();
			run_case(out, id, &Case { name: "conv".into(), params: w, init: vec![xs[0]], inputs: f1(&xs), state_every: 0 });
			id += 1;
		}
	}
	let pair_vals: Vec<u64> = if thorough && max <= 255 { (0..=255).collect() } else { vec![0, 1, 2, 3, 5, 62, 63, 64, 126, 127, 128, 129, 190, 252, 253, 254, 255].into_iter().filter(|v| *v <= max).collect() };
	for name in ["tsi", "upper_rev", "lower_rev", "reversal"] {
		for &a in &pair_vals {
			for &b in &pair_vals {
				let short: Vec<Vec<f64>> = f1(&xs[..6]);
				run_case(out, id, &Case { name: name.into(), params: vec![a.to_string(), b.to_string()], init: vec![xs[0]], inputs: short, state_every: 0 });
				id += 1;
			}
		}
	}
	for p in [0u64, 1, 2, 255, 256, 100000] {
		run_case(out, id, &Case { name: "collapse".into(), params: vec![p.to_string()], init: rows[0].clone(), inputs: rows.clone(), state_every: 0 });
		id += 1;
	}
	out.add("cases", id);
	out.sample("every method x every PeriodType value 0..=MAX (pairs for tsi/reversal), then 24 inputs on accepted instances".into());
}

fn f1(v: &[f64]) -> Vec<Vec<f64>> {
	v.iter().map(|x| vec![*x]).collect()
}

fn candle_rows(cs: &[Candle]) -> Vec<Vec<f64>> {
	cs.iter().map(|c| vec![c.open as f64, c.high as f64, c.low as f64, c.close as f64, c.volume as f64]).collect()
}

/// methods whose state is tiny or that need the per-step tie (L-step) on every step
const ALWAYS_STATE: &[&str] = &["vidya", "ema", "dma", "tma", "dema", "tema", "rma", "wsma", "tsi"];

fn state_every(len: u64, thorough: bool) -> usize {
	if len <= 16 {
		1
	} else if thorough {
		8
	} else {
		24
	}
}

/// the method suite: `filter` selects method names (empty = all)
pub fn suite(out: &mut Out, seed: u64, thorough: bool, filter: &[String]) {
	suite_w(out, seed, thorough, filter, false)
}

/// `wide`: window lengths beyond 255 (only meaningful in a wide PeriodType build)
pub fn suite_w(out: &mut Out, seed: u64, thorough: bool, filter: &[String], wide: bool) {
	let mut rng = Rng::new(seed);
	let max = gen_max();
	let want = |n: &str| filter.is_empty() || filter.iter().any(|f| f == n);
	let mut id = 0u64;
	let steps = |rng: &mut Rng, len: u64| -> usize {
		let base = if thorough { 600 } else { 160 };
		if wide {
			return len as usize + 150;
		}
		(base + 3 * len as usize + rng.below(40) as usize).min(if thorough { 1500 } else { 900 })
	};
	let lens: Vec<u64> = if wide {
		let mut v: Vec<u64> = vec![255, 256, 257, 300, 1000];
		if thorough {
			v.extend([2000, 5000]);
		}
		v.into_iter().filter(|x| *x < max).collect()
	} else if thorough {
		(1..max.min(255)).collect()
	} else {
		gen::quick_lengths(&mut rng, max)
	};
	let classes_per = if thorough { 4 } else { 3 };

	// single-value methods
	for name in SCALAR_METHODS {
		if !want(name) {
			continue;
		}
		// every method meets every class (relative change needs non-zero inputs: no `alphabet` / `zeros` for roc)
		let mut deck = if *name == "roc" { gen::Deck::new(&gen::CLASSES[2..]) } else { gen::Deck::values() };
		let mut dr = rng.fork(id + 7919);
		for &len in &lens {
			// short windows additionally always meet the small-integer alphabet (ties, values equal to a running average,
			// every order pattern of the window): that pairing must not be left to the draw
			let forced = if len <= 8 && *name != "roc" { 1 } else { 0 };
			// selection methods with short windows: signed-zero mixtures, at random and in runs, on longer streams
			let selection = ["smm", "medad", "highest", "lowest", "hldelta", "hindex", "lindex"].contains(name) && len <= 13;
			let forced_z = if selection { 4 } else { 0 };
			for k in 0..(classes_per + forced + forced_z) {
				let mut r = rng.fork(id);
				let class = if k >= classes_per + forced {
					if (k - classes_per - forced) % 2 == 0 { "zeros" } else { "zeros_runs" }
				} else if k >= classes_per {
					"alphabet"
				} else {
					deck.draw(&mut dr)
				};
				let n = if k >= classes_per + forced { 600 } else { steps(&mut r, len) };
				let mut xs = if *name == "roc" { gen::positive(&mut r, n, class) } else { gen::stream(&mut r, n, class) };
				// usual API: constructed from the first element, sometimes preceded by extra copies,
				// sometimes from an unrelated value
				let init = match r.below(5) {
					0 => xs[0] + 1.0,
					1 => {
						let c = xs[0];
						for _ in 0..(1 + r.below(len + 2)) {
							xs.insert(0, c);
						}
						c
					}
					_ => xs[0],
				};
				let case = Case {
					name: name.to_string(),
					params: vec![len.to_string()],
					init: vec![init],
					inputs: f1(&xs),
					state_every: if ALWAYS_STATE.contains(name) { 1 } else { state_every(len, thorough) },
				};
				if id % 97 == 0 {
					out.sample(format!("{} len={} class={} init={} first_inputs={:?}", name, len, class, init, &xs[..xs.len().min(6)]));
				}
				out.count(&format!("class:{}", class));
				run_case(out, id, &case);
				id += 1;
			}
		}
	}
	// cross-build runs only: every single-value method on magnitudes next to the overflow threshold (short and long, odd and
	// even windows) — `x + x`, sums and products overflow there, and both builds must overflow alike
	if crate::util::is_compat() {
		for name in SCALAR_METHODS {
			if !want(name) || *name == "roc" {
				continue;
			}
			for len in [1u64, 2, 3, 4, 5, 8, 9] {
				if len >= max {
					continue;
				}
				let mut r = rng.fork(id);
				let xs = gen::stream(&mut r, 40, "huge");
				let case = Case { name: name.to_string(), params: vec![len.to_string()], init: vec![xs[0]], inputs: f1(&xs), state_every: 0 };
				out.count("class:huge");
				run_case(out, id, &case);
				id += 1;
			}
		}
	}
	// cumulative variants
	if want("integral") {
		for class in ["walk", "noise", "flat_regime"] {
			let mut r = rng.fork(id);
			let xs = gen::stream(&mut r, 400, class);
			let case = Case { name: "integral".into(), params: vec!["0".into()], init: vec![xs[0]], inputs: f1(&xs), state_every: 1 };
			run_case(out, id, &case);
			id += 1;
		}
	}
	// TSI: (short, long) pairs
	if want("tsi") {
		let pairs: Vec<(u64, u64)> = if thorough {
			let mut v = Vec::new();
			for s in [1u64, 2, 3, 7, 13, 25, 100, 253, 254] {
				for l in [1u64, 2, 5, 13, 25, 50, 200, 254] {
					v.push((s, l));
				}
			}
			v
		} else {
			vec![(13, 25), (1, 1), (2, 7), (25, 13), (254, 254), (1, 254), (5, 100)]
		};
		let mut deck = gen::Deck::values();
		let mut dr = rng.fork(id + 7919);
		for (s, l) in pairs {
			if s >= max || l >= max {
				continue;
			}
			for _k in 0..2 {
				let mut r = rng.fork(id);
				let class = deck.draw(&mut dr);
				let xs = gen::stream(&mut r, 300, class);
				let case = Case { name: "tsi".into(), params: vec![s.to_string(), l.to_string()], init: vec![xs[0]], inputs: f1(&xs), state_every: 1 };
				out.count(&format!("class:{}", class));
				run_case(out, id, &case);
				id += 1;
			}
		}
	}
	// Conv: weight vectors
	if want("conv") {
		let nw = if thorough { 60 } else { 14 };
		for j in 0..nw {
			let mut r = rng.fork(id);
			let len = match j {
				0 => 1,
				1 => 2,
				2 => (max - 1).min(254) as usize,
				// wide PeriodType builds: weight vectors longer than the narrow type could hold
				3 if wide => 255usize.min(max as usize - 1),
				4 if wide => 256usize.min(max as usize - 1),
				5 if wide => 300usize.min(max as usize - 1),
				6 if wide => 1000usize.min(max as usize - 1),
				_ => 1 + r.below(40) as usize,
			};
			// every kind of kernel in every run (kind 3: weights of either sign)
			let kind = (j as u64) % 6;
			let mut w: Vec<f64> = (0..len)
				.map(|i| match kind {
					0 => 1.0,
					1 => (i + 1) as f64,
					2 | 4 | 5 => r.unit() + 0.01,
					_ => r.gauss() + 0.3,
				})
				.map(|x| (x as V) as f64)
				.collect();
			// lagged / lead kernels: exact zeros at the newest end, the oldest end, or scattered
			if len >= 2 && kind == 4 {
				let z = 1 + r.below(len as u64 / 2) as usize;
				if r.chance(1, 2) {
					for x in w.iter_mut().rev().take(z) {
						*x = 0.0;
					}
				} else {
					for x in w.iter_mut().take(z) {
						*x = 0.0;
					}
				}
			}
			if len >= 3 && kind == 5 {
				for x in w.iter_mut() {
					if r.chance(1, 3) {
						*x = 0.0;
					}
				}
				w[len / 2] = 1.0;
			}
			let class = gen::CLASSES[(id as usize) % gen::CLASSES.len()];
			let xs = gen::stream(&mut r, 200 + 2 * len, class);
			let case = Case {
				name: "conv".into(),
				params: w.iter().map(|x| format!("f{}", fbits(*x))).collect(),
				init: vec![xs[0]],
				inputs: f1(&xs),
				state_every: state_every(len as u64, thorough),
			};
			out.count(&format!("class:{}", class));
			run_case(out, id, &case);
			id += 1;
		}
	}
	// VWMA: (price, volume)
	if want("vwma") {
		for &len in &lens {
			let mut r = rng.fork(id);
			let class = gen::CLASSES[(id as usize) % gen::CLASSES.len()];
			let n = steps(&mut r, len);
			let ps = gen::stream(&mut r, n, class);
			let vmode = r.below(3);
			let rows: Vec<Vec<f64>> = ps
				.iter()
				.map(|p| {
					let v = match vmode {
						0 => 1.0 + 100.0 * r.unit(),
						1 => 1.0 + r.below(4) as f64,
						_ => 0.5 + 1e4 * r.unit() * r.unit(),
					};
					vec![*p, v]
				})
				.collect();
			let case = Case { name: "vwma".into(), params: vec![len.to_string()], init: rows[0].clone(), inputs: rows, state_every: state_every(len, thorough) };
			out.count(&format!("class:{}", class));
			run_case(out, id, &case);
			id += 1;
		}
	}
	// crossing detectors: pairs of streams with touches
	for name in ["cross_above", "cross_under", "cross"] {
		if !want(name) {
			continue;
		}
		let reps = if thorough { 60 } else { 14 };
		for j in 0..reps {
			let mut r = rng.fork(id);
			let n = 300;
			let class = gen::CLASSES[(j as usize) % gen::CLASSES.len()];
			let a = gen::stream(&mut r, n, class);
			let b: Vec<f64> = match j % 4 {
				0 => a.iter().map(|x| if r.chance(1, 3) { *x } else { x + r.range(-1, 1) as f64 }).collect(),
				1 => vec![a[n / 2]; n],
				2 => gen::stream(&mut r, n, class),
				_ => a.iter().map(|_| 0.0).collect(),
			};
			let rows: Vec<Vec<f64>> = a.iter().zip(b.iter()).map(|(x, y)| vec![*x, *y]).collect();
			let case = Case { name: name.into(), params: vec![], init: rows[0].clone(), inputs: rows, state_every: 1 };
			out.count(&format!("class:{}", class));
			run_case(out, id, &case);
			id += 1;
		}
	}
	// reversal detectors
	for name in ["upper_rev", "lower_rev", "reversal"] {
		if !want(name) {
			continue;
		}
		let mut pairs: Vec<(u64, u64)> = Vec::new();
		let lim = if thorough { 12 } else { 5 };
		for l in 1..=lim {
			for rr in 1..=lim {
				if l + rr <= 12 {
					pairs.push((l, rr));
				}
			}
		}
		pairs.extend([(1, 100), (100, 1), (126, 127), (60, 60), (1, 252), (252, 1)]);
		for (l, rr) in pairs {
			if l + rr + 1 >= max {
				continue;
			}
			let mut r = rng.fork(id);
			let class = *r.pick(&["alphabet", "plateaus", "walk", "zeros", "monotone", "flat_regime"]);
			let n = if thorough { 1200 } else { 420 } + 3 * (l + rr) as usize;
			let xs = gen::stream(&mut r, n, class);
			let case = Case {
				name: name.into(),
				params: vec![l.to_string(), rr.to_string()],
				init: vec![xs[0]],
				inputs: f1(&xs),
				state_every: state_every(l + rr + 1, thorough),
			};
			out.count(&format!("class:{}", class));
			run_case(out, id, &case);
			id += 1;
		}
	}
	// candle-input methods
	for name in ["adi", "tr", "heikin", "collapse"] {
		if !want(name) {
			continue;
		}
		let ps: Vec<u64> = match name {
			"adi" => {
				let mut v = vec![0];
				v.extend(lens.iter().cloned());
				v
			}
			"collapse" => vec![1, 2, 3, 5, 7, 24, 60],
			_ => vec![0; 6],
		};
		let mut deck = gen::Deck::candles();
		let mut dr = rng.fork(id + 7919);
		for (_j, &p) in ps.iter().enumerate() {
			let mut r = rng.fork(id);
			let class = deck.draw(&mut dr);
			let n = steps(&mut r, p);
			let cs = gen::candles(&mut r, n, class);
			let rows = candle_rows(&cs);
			let params = match name {
				"adi" | "collapse" => vec![p.to_string()],
				_ => vec![],
			};
			let case = Case { name: name.into(), params, init: rows[0].clone(), inputs: rows, state_every: state_every(p, thorough) };
			out.count(&format!("cclass:{}", class));
			run_case(out, id, &case);
			id += 1;
			if name == "collapse" {
				collapse_batch_check(out, id, p as usize, &cs);
				id += 1;
				// boundary lengths: exactly one period, one candle less / more, exactly two periods
				let pu = p as usize;
				for len in [pu.saturating_sub(1), pu, pu + 1, 2 * pu] {
					if len >= 1 && len <= cs.len() && pu >= 1 {
						collapse_batch_check(out, id, pu, &cs[..len]);
						id += 1;
					}
				}
			}
		}
	}
	out.add("cases", id);
}
