//! Input generators (DESIGN §4). Every choice comes from the one `Rng`.
use crate::rng::Rng;
use yata::core::Candle;

pub const CLASSES: &[&str] = &[
	"alphabet", "zeros", "walk", "noise", "flat_regime", "scale_jump", "monotone", "spikes", "plateaus", "impulse", "tiny", "episodes",
];

/// A shuffled deck of class names: drawing from it visits every class once before any class repeats, whatever the number
/// of classes and however the caller's counters are coupled (an earlier `(id + k) % len` scheme visited only every other
/// class once the number of classes became even).
pub struct Deck {
	names: Vec<&'static str>,
	order: Vec<usize>,
	pos: usize,
}

impl Deck {
	pub fn new(names: &[&'static str]) -> Self {
		Deck { names: names.to_vec(), order: Vec::new(), pos: 0 }
	}
	pub fn values() -> Self {
		Self::new(CLASSES)
	}
	pub fn candles() -> Self {
		Self::new(CANDLE_CLASSES)
	}
	pub fn draw(&mut self, rng: &mut Rng) -> &'static str {
		if self.pos >= self.order.len() {
			// Fisher-Yates
			self.order = (0..self.names.len()).collect();
			for i in (1..self.order.len()).rev() {
				let j = rng.below(i as u64 + 1) as usize;
				self.order.swap(i, j);
			}
			self.pos = 0;
		}
		self.pos += 1;
		self.names[self.order[self.pos - 1]]
	}
}

/// a value stream of one class
pub fn stream(rng: &mut Rng, len: usize, class: &str) -> Vec<f64> {
	let mut v = Vec::with_capacity(len);
	match class {
		// tiny alphabets: ties, plateaus, every order pattern of a short window
		"alphabet" => {
			let k = 2 + rng.below(4) as i64;
			let base = *rng.pick(&[0.0, 1.0, -3.0, 100.0]);
			for _ in 0..len {
				v.push(base + rng.range(0, k - 1) as f64);
			}
		}
		// magnitudes next to the overflow threshold (cross-build runs only)
		"huge" => {
			let ks = [4.0e307, 9.0e307, 1.2e308, 1.7e308];
			for _ in 0..len {
				let k = *rng.pick(&ks);
				v.push(if rng.chance(1, 3) { -k } else { k } * (0.5 + 0.5 * rng.unit()));
			}
		}
		// signed zeros and small negatives/positives
		"zeros" => {
			let alpha = [0.0, -0.0, 1.0, -1.0, 0.0, -0.0, 2.0];
			for _ in 0..len {
				v.push(*rng.pick(&alpha));
			}
		}
		// the same in short runs (not in the class list: forced on the selection methods, where a comparison that does not
		// separate -0.0 from +0.0 corrupts the sorted bookkeeping only on particular run patterns)
		"zeros_runs" => {
			let alpha = [0.0, -0.0, 1.0, -1.0];
			while v.len() < len {
				let x = *rng.pick(&alpha);
				for _ in 0..(1 + rng.below(4)) {
					if v.len() < len {
						v.push(x);
					}
				}
			}
		}
		"walk" => {
			let mut x = 100.0 * (1.0 + rng.unit());
			let step = *rng.pick(&[0.01, 0.5, 3.0]);
			for _ in 0..len {
				x += step * rng.gauss();
				v.push(x);
			}
		}
		"noise" => {
			let scale = *rng.pick(&[1e-9, 1e-3, 1.0, 1e3, 1e9]);
			let center = *rng.pick(&[0.0, 1.0, -5.0, 100.0]) * scale;
			for _ in 0..len {
				v.push(center + scale * rng.gauss());
			}
		}
		// volatile -> exactly flat -> volatile
		"flat_regime" => {
			let mut x = 50.0 + 50.0 * rng.unit();
			let a = len / 3;
			let b = 2 * len / 3;
			for i in 0..len {
				if i < a || i >= b {
					x += rng.gauss();
				}
				v.push(x);
			}
		}
		"scale_jump" => {
			let scales = [1e6, 1e-3, 1.0, 1e6];
			for i in 0..len {
				let s = scales[(i * scales.len() / len.max(1)).min(3)];
				v.push(s * (1.0 + 0.3 * rng.gauss()));
			}
		}
		// `ramp` (not in the class lists; used for the long-window indicator cases): one direction from the first to the
		// last value, so that streak counters run as long as the stream
		"monotone" | "ramp" => {
			let mut x = rng.gauss() * 10.0;
			let dir = if rng.chance(1, 2) { 1.0 } else { -1.0 };
			for i in 0..len {
				if class == "monotone" && i == len / 2 && rng.chance(1, 2) {
					x -= dir * 40.0 * rng.unit();
				}
				x += dir * rng.unit();
				v.push(x);
			}
		}
		"spikes" => {
			let base = 10.0 * rng.gauss();
			for _ in 0..len {
				if rng.chance(1, 17) {
					v.push(base + 1e4 * rng.gauss());
				} else {
					v.push(base + 0.01 * rng.gauss());
				}
			}
		}
		// very small units (absolute thresholds such as `> EPSILON` in place of `!= 0` show here), optionally after an
		// ordinary-scale prefix
		"tiny" => {
			// single precision: keep squares and products of three values inside the normal range (no underflow: §3.2)
			let f32_build = std::mem::size_of::<yata::core::ValueType>() == 4;
			let s = if f32_build { *rng.pick(&[1e-12, 8.470329472543003e-13, 1e-9, 1e-11]) } else { *rng.pick(&[1e-21, 8.470329472543003e-22, 1e-17, 1e-30]) };
			let c = *rng.pick(&[0.0, 1.0, 5.0]);
			let prefix = if rng.chance(1, 3) { len / 4 } else { 0 };
			let mut x = c;
			for i in 0..len {
				x += 0.3 * rng.gauss();
				if rng.chance(1, 9) {
					x = c + (rng.range(-3, 3) as f64);
				}
				v.push(if i < prefix { 100.0 + x } else { s * x });
			}
		}
		// bursts of log-normal moves of about a third of the level on a two-decimal grid, each followed by a flat stretch:
		// every burst leaves fresh rounding residue in running sums (the regime that exposed Vidya's unbounded |CMO|)
		"episodes" => {
			let mut x = (100.0 * (0.5 + rng.unit()) * 100.0).round() / 100.0;
			let burst = 6 + rng.below(14) as usize;
			let flat = 4 + rng.below(30) as usize;
			for i in 0..len {
				if i % (burst + flat) < burst {
					if !(1.0..=1.0e4).contains(&x) {
						x = 100.0 * (0.5 + rng.unit());
					}
					x = ((x * (0.35 * rng.gauss()).exp()).max(0.05) * 100.0).round() / 100.0;
				}
				v.push(x);
			}
		}
		// a single unit impulse on a zero background: the outputs are the weight profile
		"impulse" => {
			let at = rng.below(len.max(1) as u64 / 3 + 1) as usize;
			for i in 0..len {
				v.push(if i == at { 1.0 } else { 0.0 });
			}
		}
		// runs of repeated values of random length
		_ => {
			let mut x = rng.range(-5, 5) as f64;
			let mut run = 0;
			for _ in 0..len {
				if run == 0 {
					x = rng.range(-5, 5) as f64 * 0.5;
					run = 1 + rng.below(7);
				}
				run -= 1;
				v.push(x);
			}
		}
	}
	// cross-build runs only (`--compat`; those transcripts are compared build against build, never against the rational
	// model): magnitudes next to the overflow threshold, where `x + x`, sums and products become infinite
	if crate::util::is_compat() && class == "alphabet" && rng.chance(1, 2) {
		let k = *rng.pick(&[4.0e307, 9.0e307, 1.7e308]);
		for x in v.iter_mut() {
			*x = if *x == 0.0 { k } else { (*x).signum() * k / (1.0 + x.abs() / 8.0) };
		}
	}
	v
}

/// strictly positive version of a stream (prices)
pub fn positive(rng: &mut Rng, len: usize, class: &str) -> Vec<f64> {
	let s = stream(rng, len, class);
	let min = s.iter().cloned().fold(f64::INFINITY, f64::min);
	let shift = if min <= 0.5 { 1.0 - min } else { 0.0 };
	s.into_iter().map(|x| x + shift).collect()
}

pub const CANDLE_CLASSES: &[&str] = &["walk", "flat_regime", "plateaus", "alphabet", "noise_pos", "spikes", "monotone", "ticks", "episodes", "micro"];

/// a stream of valid candles (low <= open,close <= high, positive prices, volume >= 0)
pub fn candles(rng: &mut Rng, len: usize, class: &str) -> Vec<Candle> {
	// `micro`: an ordinary walk quoted in a unit of 1e-16 (every price, range and change is far below machine epsilon in
	// absolute terms: an absolute threshold such as `< EPSILON` in place of an exact comparison shows here)
	let micro = class == "micro";
	let cls = if class == "noise_pos" { "noise" } else if class == "ticks" || micro { "walk" } else { class };
	let mut closes = positive(rng, len + 1, cls);
	let ticks = class == "ticks";
	if ticks {
		// prices on a half-unit grid, trending up and down: equal highs / lows across candles are frequent
		let drift = 0.15 * rng.gauss();
		let mut d = 0.0;
		for (i, c) in closes.iter_mut().enumerate() {
			if i % 40 == 0 {
				d = -d - drift;
			}
			*c = ((*c - 100.0) * 0.2 + 50.0 + d * (i % 40) as f64).max(1.0);
			*c = (*c * 2.0).round() / 2.0;
		}
	}
	if class == "noise_pos" {
		// keep relative noise moderate
		let m = closes.iter().cloned().fold(0.0, f64::max).max(1.0);
		for c in closes.iter_mut() {
			*c = *c / m * 100.0 + 1.0;
		}
	}
	let vol_mode = rng.below(4);
	let mut out = Vec::with_capacity(len);
	for i in 0..len {
		let open = if rng.chance(1, 9) { closes[i] * (1.0 + 0.01 * rng.gauss()).abs().max(0.5) } else { closes[i] };
		let close = closes[i + 1];
		let (hi0, lo0) = (open.max(close), open.min(close));
		let flat = open == close && rng.chance(3, 4);
		// `ramp`: no wicks, so that highs and lows are as monotone as the closes (a streak is not broken by a random wick)
		let ramp = class == "ramp";
		let up = if ticks { 0.5 * rng.below(3) as f64 } else if flat || ramp || rng.chance(1, 6) { 0.0 } else { hi0 * 0.01 * rng.unit() };
		let dn = if ticks { 0.5 * rng.below(3) as f64 } else if flat || ramp || rng.chance(1, 6) { 0.0 } else { lo0 * 0.01 * rng.unit() };
		let high = hi0 + up;
		let low = (lo0 - dn).max(lo0 * 0.5);
		let volume = match vol_mode {
			0 => 1000.0 * rng.unit(),
			1 => {
				if rng.chance(1, 4) {
					0.0
				} else {
					10.0 + rng.below(5) as f64
				}
			}
			2 => (rng.below(3) as f64) * 100.0,
			_ => 1e6 * rng.unit() * rng.unit(),
		};
		type V = yata::core::ValueType;
		let k = if micro { 1.0e-16 } else { 1.0 };
		let (open, high, low, close) = ((open * k) as V, (high * k) as V, (low * k) as V, (close * k) as V);
		// (the scaling is monotone, but rounding to V may merge neighbours: keep the candle valid)
		out.push(Candle { open, high: high.max(open).max(close), low: low.min(open).min(close), close, volume: volume as V });
	}
	out
}

/// a short volatile stretch on a two-decimal price grid followed by a completely flat tail: running sums are left holding
/// rounding residue, which is where quotients behind exact `== 0` guards go wrong
pub fn candles_burst_flat(rng: &mut Rng, len: usize) -> Vec<Candle> {
	type V = yata::core::ValueType;
	let m = 6 + rng.below(40) as usize;
	// price level 0.05 .. 95 on a 0.01 grid, or 100 .. 400 on a 0.1 grid
	let coarse = rng.chance(1, 2);
	let grid = if coarse { 10.0 } else { 100.0 };
	let mut p = if coarse { (100.0 + 300.0 * rng.unit()) } else { 5.0 + 95.0 * rng.unit() * 100.0 / 100.0 };
	p = (p * grid).round() / grid;
	// absolute tick-sized steps, or relative ones of about a tenth of the price (values then change binade often, which is
	// what gives the residues of two running sums opposite signs)
	let step = if rng.chance(1, 2) { *rng.pick(&[0.05, 0.5, 2.5]) } else { 0.12 * p };
	// a third of the cases: log-normal moves of about a third of the level (the regime that exposed Vidya's unbounded |CMO|)
	let lognormal = rng.chance(1, 3);
	let step = if lognormal { 0.3 * p } else { step };
	let mut out = Vec::with_capacity(len);
	for i in 0..len {
		if i < m {
			let q = if lognormal { p * (0.35 * rng.gauss()).exp() } else { p + step * rng.gauss() };
			let q = (q.max(0.5).min(9.0e5) * grid).round() / grid;
			let (hi, lo) = (p.max(q), p.min(q));
			let high = ((hi + step * 0.3 * rng.unit()) * grid).round() / grid;
			let low = (((lo - step * 0.3 * rng.unit()).max(0.25)) * grid).round() / grid;
			let volume = (1.0 + rng.below(2000) as f64) * if rng.chance(1, 8) { 0.0 } else { 1.0 };
			out.push(Candle { open: p as V, high: high.max(hi) as V, low: low.min(lo) as V, close: q as V, volume: volume as V });
			p = q;
		} else {
			let volume = if rng.chance(1, 2) { 0.0 } else { 100.0 };
			out.push(Candle { open: p as V, high: p as V, low: p as V, close: p as V, volume: volume as V });
		}
	}
	out
}

/// lengths explored in the quick tier (DESIGN §4) for PeriodType = u8
pub fn quick_lengths(rng: &mut Rng, max: u64) -> Vec<u64> {
	let mut v: Vec<u64> = vec![1, 2, 3, 4, 5, 7, 8, 13, 16, 31, 127, 128, 253, 254]
		.into_iter()
		.filter(|&x| x < max)
		.collect();
	for _ in 0..4 {
		v.push(1 + rng.below(max.min(254)));
	}
	v
}
