//! helpers shared by all suites: panic capture, transcript writer, statistics
use std::collections::BTreeMap;
use std::io::Write;
use std::panic::{catch_unwind, AssertUnwindSafe};

static LAST_PANIC: std::sync::Mutex<String> = std::sync::Mutex::new(String::new());

pub fn quiet_panics() {
	std::panic::set_hook(Box::new(|info| {
		let msg = if let Some(s) = info.payload().downcast_ref::<&str>() {
			s.to_string()
		} else if let Some(s) = info.payload().downcast_ref::<String>() {
			s.clone()
		} else {
			"panic".to_string()
		};
		if let Ok(mut g) = LAST_PANIC.lock() {
			*g = msg;
		}
	}));
}

/// message of the most recent panic, reduced to a token usable in a signature
pub fn last_panic_tag() -> String {
	let m = LAST_PANIC.lock().map(|g| g.clone()).unwrap_or_default();
	let t: String = m.chars().map(|c| if c.is_ascii_alphanumeric() { c } else { '_' }).collect();
	t.chars().take(48).collect()
}

/// run `f`, mapping a panic to `None`
pub fn guard<T>(f: impl FnOnce() -> T) -> Option<T> {
	catch_unwind(AssertUnwindSafe(f)).ok()
}

pub struct Out {
	pub w: Box<dyn Write>,
	pub stats: BTreeMap<String, u64>,
	pub samples: Vec<String>,
	pub lines: u64,
}

impl Out {
	pub fn new(path: &str) -> Self {
		let w: Box<dyn Write> = if path == "-" {
			Box::new(std::io::BufWriter::new(std::io::stdout()))
		} else {
			Box::new(std::io::BufWriter::with_capacity(
				1 << 20,
				std::fs::File::create(path).expect("create transcript"),
			))
		};
		Out {
			w,
			stats: BTreeMap::new(),
			samples: Vec::new(),
			lines: 0,
		}
	}
	pub fn line(&mut self, s: &str) {
		self.lines += 1;
		self.w.write_all(s.as_bytes()).unwrap();
		self.w.write_all(b"\n").unwrap();
	}
	pub fn count(&mut self, key: &str) {
		*self.stats.entry(key.to_string()).or_insert(0) += 1;
	}
	pub fn add(&mut self, key: &str, n: u64) {
		*self.stats.entry(key.to_string()).or_insert(0) += n;
	}
	pub fn sample(&mut self, s: String) {
		if self.samples.len() < 6 {
			self.samples.push(s);
		}
	}
	pub fn finish(mut self, stats_path: Option<&str>) {
		self.w.flush().unwrap();
		if let Some(p) = stats_path {
			let v = serde_json::json!({
				"lines": self.lines,
				"stats": self.stats,
				"samples": self.samples,
			});
			std::fs::write(p, serde_json::to_string_pretty(&v).unwrap()).unwrap();
		}
	}
}

static COMPAT: std::sync::atomic::AtomicBool = std::sync::atomic::AtomicBool::new(false);

/// `--compat`: generate only parameters that fit the default `u8` PeriodType (<= 254), so that the
/// same seed yields the same programs in every PeriodType build (C19/C20 cross-build comparison)
pub fn set_compat(on: bool) {
	COMPAT.store(on, std::sync::atomic::Ordering::Relaxed);
}

pub fn is_compat() -> bool {
	COMPAT.load(std::sync::atomic::Ordering::Relaxed)
}

/// the maximum of PeriodType as seen by the generators
pub fn gen_max() -> u64 {
	if COMPAT.load(std::sync::atomic::Ordering::Relaxed) {
		254
	} else {
		yata::core::PeriodType::MAX as u64
	}
}

pub fn fbits(x: f64) -> String {
	format!("{:016x}", x.to_bits())
}

pub fn parse_fbits(s: &str) -> f64 {
	f64::from_bits(u64::from_str_radix(s, 16).expect("hex float"))
}

/// the part of a transcript line before ';' split into tokens
pub fn op_tokens(line: &str) -> Vec<String> {
	let op = line.split(';').next().unwrap_or("");
	op.split_whitespace().map(|s| s.to_string()).collect()
}
